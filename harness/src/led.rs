//! The harness's own ledger representation (independent of cgt-core's serde), a DSL
//! writer, and the conversion into cgt-core transactions.

use cgt_core::{Currency, CurrencyAmount, Operation, Transaction};
use chrono::NaiveDate;
use rust_decimal::Decimal;
use serde::{Deserialize, Serialize};

#[derive(Clone, Debug, PartialEq, Serialize, Deserialize)]
pub struct Money {
    pub a: Decimal,
    pub c: String,
}

impl Money {
    pub fn gbp(a: Decimal) -> Money {
        Money { a, c: "GBP".into() }
    }
    pub fn new(a: Decimal, c: &str) -> Money {
        Money { a, c: c.to_string() }
    }
    pub fn zero() -> Money {
        Money::gbp(Decimal::ZERO)
    }
    pub fn is_gbp(&self) -> bool {
        self.c.eq_ignore_ascii_case("GBP")
    }
}

#[derive(Clone, Debug, PartialEq, Serialize, Deserialize)]
pub enum Op {
    Buy { q: Decimal, p: Money, f: Money },
    Sell { q: Decimal, p: Money, f: Money },
    Split { r: Decimal },
    Unsplit { r: Decimal },
    CapRet { q: Decimal, total: Money, fees: Money },
    Acc { q: Decimal, total: Money, tax: Money },
    Div { total: Money, tax: Money },
}

#[derive(Clone, Debug, PartialEq, Serialize, Deserialize)]
pub struct Tx {
    pub date: NaiveDate,
    pub ticker: String,
    pub op: Op,
}

pub fn d(y: i32, m: u32, day: u32) -> NaiveDate {
    NaiveDate::from_ymd_opt(y, m, day).expect("valid date")
}

impl Tx {
    pub fn buy(date: NaiveDate, t: &str, q: Decimal, p: Decimal, f: Decimal) -> Tx {
        Tx { date, ticker: t.into(), op: Op::Buy { q, p: Money::gbp(p), f: Money::gbp(f) } }
    }
    pub fn sell(date: NaiveDate, t: &str, q: Decimal, p: Decimal, f: Decimal) -> Tx {
        Tx { date, ticker: t.into(), op: Op::Sell { q, p: Money::gbp(p), f: Money::gbp(f) } }
    }
    pub fn is_trade(&self) -> bool {
        matches!(self.op, Op::Buy { .. } | Op::Sell { .. })
    }
    pub fn is_event(&self) -> bool {
        matches!(self.op, Op::CapRet { .. } | Op::Acc { .. })
    }
    pub fn is_split(&self) -> bool {
        matches!(self.op, Op::Split { .. } | Op::Unsplit { .. })
    }
    pub fn monies_mut(&mut self) -> Vec<&mut Money> {
        match &mut self.op {
            Op::Buy { p, f, .. } | Op::Sell { p, f, .. } => vec![p, f],
            Op::CapRet { total, fees, .. } => vec![total, fees],
            Op::Acc { total, tax, .. } | Op::Div { total, tax } => vec![total, tax],
            Op::Split { .. } | Op::Unsplit { .. } => vec![],
        }
    }
    pub fn monies(&self) -> Vec<&Money> {
        match &self.op {
            Op::Buy { p, f, .. } | Op::Sell { p, f, .. } => vec![p, f],
            Op::CapRet { total, fees, .. } => vec![total, fees],
            Op::Acc { total, tax, .. } | Op::Div { total, tax } => vec![total, tax],
            Op::Split { .. } | Op::Unsplit { .. } => vec![],
        }
    }
}

pub fn cur(code: &str) -> Currency {
    Currency::from_code(&code.to_uppercase()).unwrap_or(Currency::GBP)
}

fn ca(m: &Money) -> CurrencyAmount {
    CurrencyAmount::new(m.a, cur(&m.c))
}

pub fn to_core_tx(t: &Tx) -> Transaction {
    let operation = match &t.op {
        Op::Buy { q, p, f } => Operation::Buy { amount: *q, price: ca(p), fees: ca(f) },
        Op::Sell { q, p, f } => Operation::Sell { amount: *q, price: ca(p), fees: ca(f) },
        Op::Split { r } => Operation::Split { ratio: *r },
        Op::Unsplit { r } => Operation::Unsplit { ratio: *r },
        Op::CapRet { q, total, fees } => {
            Operation::CapReturn { amount: *q, total_value: ca(total), fees: ca(fees) }
        }
        Op::Acc { q, total, tax } => {
            Operation::Accumulation { amount: *q, total_value: ca(total), tax_paid: ca(tax) }
        }
        Op::Div { total, tax } => Operation::Dividend { total_value: ca(total), tax_paid: ca(tax) },
    };
    Transaction { date: t.date, ticker: t.ticker.clone(), operation }
}

pub fn to_core(l: &[Tx]) -> Vec<Transaction> {
    l.iter().map(to_core_tx).collect()
}

fn m_from(c: &CurrencyAmount) -> Money {
    Money { a: c.amount, c: c.currency.code().to_string() }
}

pub fn from_core_tx(t: &Transaction) -> Tx {
    let op = match &t.operation {
        Operation::Buy { amount, price, fees } => Op::Buy { q: *amount, p: m_from(price), f: m_from(fees) },
        Operation::Sell { amount, price, fees } => Op::Sell { q: *amount, p: m_from(price), f: m_from(fees) },
        Operation::Split { ratio } => Op::Split { r: *ratio },
        Operation::Unsplit { ratio } => Op::Unsplit { r: *ratio },
        Operation::CapReturn { amount, total_value, fees } => {
            Op::CapRet { q: *amount, total: m_from(total_value), fees: m_from(fees) }
        }
        Operation::Accumulation { amount, total_value, tax_paid } => {
            Op::Acc { q: *amount, total: m_from(total_value), tax: m_from(tax_paid) }
        }
        Operation::Dividend { total_value, tax_paid } => Op::Div { total: m_from(total_value), tax: m_from(tax_paid) },
    };
    Tx { date: t.date, ticker: t.ticker.clone(), op }
}

pub fn from_core(l: &[Transaction]) -> Vec<Tx> {
    l.iter().map(from_core_tx).collect()
}

fn money_s(m: &Money) -> String {
    format!("{} {}", m.a, m.c.to_uppercase())
}

/// Canonical DSL writer (the harness's own; always explicit currency, clause omitted when zero).
pub fn tx_to_dsl(t: &Tx) -> String {
    let date = t.date.format("%Y-%m-%d");
    let tk = &t.ticker;
    match &t.op {
        Op::Buy { q, p, f } => {
            let mut s = format!("{date} BUY {tk} {q} @ {}", money_s(p));
            if !f.a.is_zero() {
                s.push_str(&format!(" FEES {}", money_s(f)));
            }
            s
        }
        Op::Sell { q, p, f } => {
            let mut s = format!("{date} SELL {tk} {q} @ {}", money_s(p));
            if !f.a.is_zero() {
                s.push_str(&format!(" FEES {}", money_s(f)));
            }
            s
        }
        Op::Split { r } => format!("{date} SPLIT {tk} RATIO {r}"),
        Op::Unsplit { r } => format!("{date} UNSPLIT {tk} RATIO {r}"),
        Op::CapRet { q, total, fees } => {
            let mut s = format!("{date} CAPRETURN {tk} {q} TOTAL {}", money_s(total));
            if !fees.a.is_zero() {
                s.push_str(&format!(" FEES {}", money_s(fees)));
            }
            s
        }
        Op::Acc { q, total, tax } => {
            let mut s = format!("{date} ACCUMULATION {tk} {q} TOTAL {}", money_s(total));
            if !tax.a.is_zero() {
                s.push_str(&format!(" TAX {}", money_s(tax)));
            }
            s
        }
        Op::Div { total, tax } => {
            let mut s = format!("{date} DIVIDEND {tk} TOTAL {}", money_s(total));
            if !tax.a.is_zero() {
                s.push_str(&format!(" TAX {}", money_s(tax)));
            }
            s
        }
    }
}

pub fn to_dsl(l: &[Tx]) -> String {
    l.iter().map(tx_to_dsl).collect::<Vec<_>>().join("\n")
}

pub fn dsl_lines(l: &[Tx]) -> Vec<String> {
    l.iter().map(tx_to_dsl).collect()
}

/// Deterministic 64-bit hash of a ledger (for distinct-case counting).
pub fn hash_str(s: &str) -> u64 {
    // FNV-1a
    let mut h: u64 = 0xcbf29ce484222325;
    for b in s.as_bytes() {
        h ^= *b as u64;
        h = h.wrapping_mul(0x100000001b3);
    }
    h
}
