//! Constructive, model-guided ledger generator.
//!
//! proptest generates a `Recipe` of raw numbers; `build` interprets it day by day while
//! tracking exact per-security holdings, so that every sale is covered by construction.
//! Shrinking the recipe (dropping days/acts, lowering numbers) shrinks the ledger.

use crate::led::{Money, Op, Tx};
use crate::model;
use crate::rat::Rat;
use chrono::{Duration, NaiveDate};
use proptest::prelude::*;
use rust_decimal::Decimal;
use serde::{Deserialize, Serialize};
use std::collections::BTreeMap;

#[derive(Clone, Copy, Debug, PartialEq, Eq)]
pub enum SplitMode {
    None,
    Terminating,
    Residue,
}

#[derive(Clone, Copy, Debug)]
pub struct GenCfg {
    pub max_secs: u8,
    pub min_days: usize,
    pub max_days: usize,
    pub max_acts: usize,
    pub splits: SplitMode,
    pub events: bool,
    pub dividends: bool,
    pub min_year: i32,
    pub max_year: i32,
    pub shuffle: bool,
    /// tickers drawn from a pool with prefix-related names (GOOG/GOOGL, BT/BTA, A/AA/AAA)
    pub wide_tickers: bool,
    /// allow SPLIT/UNSPLIT/CAPRETURN/ACCUMULATION on a date that also has a BUY/SELL of the same
    /// security (outside the domain of the model-based checks; used by order-independence checks)
    pub same_day_events: bool,
}

impl GenCfg {
    pub fn basic() -> GenCfg {
        GenCfg {
            max_secs: 1,
            min_days: 2,
            max_days: 14,
            max_acts: 2,
            splits: SplitMode::None,
            events: false,
            dividends: false,
            min_year: 1901,
            max_year: 2095,
            shuffle: false,
            wide_tickers: false,
            same_day_events: false,
        }
    }
    pub fn secs(mut self, n: u8) -> Self {
        self.max_secs = n;
        self.max_acts = self.max_acts.max((n as usize).min(4));
        self
    }
    pub fn days(mut self, lo: usize, hi: usize) -> Self {
        self.min_days = lo;
        self.max_days = hi;
        self
    }
    pub fn splits(mut self, m: SplitMode) -> Self {
        self.splits = m;
        self
    }
    pub fn events(mut self, e: bool) -> Self {
        self.events = e;
        self
    }
    pub fn dividends(mut self, e: bool) -> Self {
        self.dividends = e;
        self
    }
    pub fn years(mut self, lo: i32, hi: i32) -> Self {
        self.min_year = lo;
        self.max_year = hi;
        self
    }
    pub fn shuffle(mut self, s: bool) -> Self {
        self.shuffle = s;
        self
    }
    pub fn wide(mut self, w: bool) -> Self {
        self.wide_tickers = w;
        self
    }
    pub fn same_day(mut self, w: bool) -> Self {
        self.same_day_events = w;
        self
    }
    pub fn acts(mut self, n: usize) -> Self {
        self.max_acts = n;
        self
    }
}

#[derive(Clone, Debug, Serialize, Deserialize)]
pub struct ActRaw {
    pub sec: u8,
    pub kind: u8,
    pub v: [u16; 8],
}

#[derive(Clone, Debug, Serialize, Deserialize)]
pub struct DayRaw {
    pub gap: u8,
    pub acts: Vec<ActRaw>,
}

#[derive(Clone, Debug, Serialize, Deserialize)]
pub struct Recipe {
    pub anchor: u8,
    pub pre: u8,
    pub year: u16,
    pub nsec: u8,
    pub days: Vec<DayRaw>,
    pub perm: Vec<u16>,
}

/// A generated, accepted-by-construction ledger plus bookkeeping.
#[derive(Clone, Debug, Serialize, Deserialize)]
pub struct GenLedger {
    pub ledger: Vec<Tx>,
    /// acts dropped or moved to honour the excluded placements (split/event on a trade day)
    pub excluded: u64,
}

pub const GAPS: [i64; 16] = [1, 1, 2, 5, 14, 29, 30, 30, 31, 31, 32, 45, 10, 3, 200, 400];
pub const TERM_RATIOS: [&str; 6] = ["2", "4", "5", "10", "1.25", "2.5"];
pub const RESIDUE_RATIOS: [&str; 4] = ["3", "7", "1.5", "6"];
pub const TICKERS: [&str; 12] =
    ["AAA", "BBB", "CCC", "DDD", "EEE", "FFF", "GGG", "HHH", "III", "JJJ", "KKK", "LLL"];
pub const WIDE_TICKERS: [&str; 12] = ["GOOG", "GOOGL", "BT", "BTA", "A", "AA", "AAB", "B", "BA", "Z9", "Z", "GO"];

pub fn recipe_strategy(cfg: GenCfg) -> impl Strategy<Value = Recipe> {
    let act = (0u8..cfg.max_secs.max(1), 0u8..100, proptest::array::uniform8(any::<u16>()))
        .prop_map(|(sec, kind, v)| ActRaw { sec, kind, v });
    let day = (0u8..16, proptest::collection::vec(act, 1..=cfg.max_acts.max(1)))
        .prop_map(|(gap, acts)| DayRaw { gap, acts });
    let years = (cfg.min_year as u16)..=(cfg.max_year as u16);
    (
        0u8..12,
        0u8..6,
        years,
        1u8..=cfg.max_secs.max(1),
        proptest::collection::vec(day, cfg.min_days..=cfg.max_days),
        proptest::collection::vec(any::<u16>(), if cfg.shuffle { 64 } else { 0 }),
    )
        .prop_map(|(anchor, pre, year, nsec, days, perm)| Recipe { anchor, pre, year, nsec, days, perm })
}

pub fn ledger_strategy(cfg: GenCfg) -> BoxedStrategy<GenLedger> {
    recipe_strategy(cfg).prop_map(move |r| build(&r, &cfg)).boxed()
}

fn anchor_date(kind: u8, year: i32) -> NaiveDate {
    let ymd = |y, m, d| NaiveDate::from_ymd_opt(y, m, d);
    let leapish = year - year.rem_euclid(4);
    let dt = match kind {
        0 => ymd(year, 4, 5),
        1 => ymd(year, 4, 6),
        2 => ymd(year, 12, 31),
        3 => ymd(year, 1, 1),
        4 => ymd(year, 2, 28),
        5 => ymd(leapish.max(1904), 2, 29).or(ymd(year, 2, 28)),
        6 => ymd(year, 1, 31),
        7 => ymd(year, 3, 31),
        8 => ymd(year, 3, 6),
        9 => ymd(year, 6, 15),
        10 => ymd(year, 10, 30),
        _ => ymd(year, 8, 1),
    };
    dt.unwrap_or_else(|| NaiveDate::from_ymd_opt(year, 6, 15).expect("date"))
}

fn dec(s: &str) -> Decimal {
    s.parse().expect("decimal literal")
}

fn qty_from(x: u16) -> Decimal {
    let style = x % 20;
    let y = (x / 20) as i64;
    match style {
        0..=12 => Decimal::from(1 + y % 500),
        13 => Decimal::from(100 * (1 + y % 50)),
        14 => Decimal::new(1 + y % 5000, 1),
        15 => Decimal::new(1 + y % 5000, 2),
        16 => Decimal::new(1 + y % 3000, 3),
        17 | 18 => Decimal::new(1 + y, 4),
        _ => Decimal::new(1 + y % 9, 6),
    }
}

fn price_from(x: u16) -> Decimal {
    match x % 7 {
        0 => Decimal::new(1 + (x / 7) as i64, 4), // sub-penny prices
        1 => Decimal::from(1 + (x / 7) as i64 % 300),
        _ => Decimal::new(1 + (x as i64), 2),
    }
}

fn fee_from(x: u16) -> Decimal {
    if x % 5 < 2 { Decimal::ZERO } else { Decimal::new((x as i64 / 5) % 3000 + 1, 2) }
}

/// Largest decimal (<= 8 dp) not above the rational.
fn floor_dec(r: &Rat, dp: u32) -> Decimal {
    if let Some(d) = r.to_dec_exact() {
        if d.scale() <= dp {
            return d;
        }
    }
    // floor to dp places
    let scaled = r * Rat::from_dec(Decimal::from(10i64.pow(dp)));
    let fl = scaled.to_f64().floor();
    let mut cand = Decimal::new(fl as i64, dp);
    // adjust for float error
    while Rat::from_dec(cand) > *r {
        cand -= Decimal::new(1, dp);
    }
    cand
}

struct SecState {
    hold: Rat,
    /// sum of buy costs (+acc, -capret) — used only to size events
    traded_today: bool,
    evented_today: bool,
}

pub fn build(r: &Recipe, cfg: &GenCfg) -> GenLedger {
    build_from(r, cfg, None, &[])
}

/// Like `build`, but optionally starting at a given date with the given ledger already in place
/// (its closing holdings are available to sell). Only the new lines are returned.
pub fn build_from(r: &Recipe, cfg: &GenCfg, start: Option<NaiveDate>, prior: &[Tx]) -> GenLedger {
    let nsec = if prior.is_empty() { r.nsec.max(1).min(cfg.max_secs.max(1)) as usize } else { cfg.max_secs.max(1) as usize };
    let mut date = anchor_date(r.anchor, r.year as i32) - Duration::days([0i64, 1, 29, 30, 31, 2][r.pre as usize % 6]);
    if let Some(s) = start {
        date = s;
    }
    let max_date = NaiveDate::from_ymd_opt(cfg.max_year + 1, 4, 5).expect("date");
    let min_date = NaiveDate::from_ymd_opt(cfg.min_year, 4, 6).expect("date");
    if date < min_date {
        date = min_date;
    }
    let mut ledger: Vec<Tx> = prior.to_vec();
    let prior_len = prior.len();
    let mut excluded = 0u64;
    let mut st: Vec<SecState> =
        (0..nsec).map(|_| SecState { hold: Rat::zero(), traded_today: false, evented_today: false }).collect();
    let wide = cfg.wide_tickers;
    let ticker = move |i: usize| if wide { WIDE_TICKERS[i % WIDE_TICKERS.len()].to_string() } else { TICKERS[i % TICKERS.len()].to_string() };
    if !prior.is_empty() {
        if let Ok(agg) = model::aggregate(&ledger, &model::NoFx) {
            for (i, s) in st.iter_mut().enumerate() {
                let mut h = Rat::zero();
                if let Some(days) = agg.get(&ticker(i)) {
                    for dd in days {
                        h = (&h + &dd.b - &dd.s) * &dd.ratio;
                    }
                }
                s.hold = h;
            }
        }
    }

    for (di, day) in r.days.iter().enumerate() {
        if di > 0 {
            date += Duration::days(GAPS[day.gap as usize % GAPS.len()]);
        }
        if date > max_date {
            break;
        }
        for s in st.iter_mut() {
            s.traded_today = false;
            s.evented_today = false;
        }
        // per security: collect buys then sells so fills are adjacent (canonical form)
        let mut day_buys: BTreeMap<usize, Vec<Tx>> = BTreeMap::new();
        let mut day_sells: BTreeMap<usize, Vec<Tx>> = BTreeMap::new();
        let mut day_other: Vec<Tx> = vec![];
        for act in &day.acts {
            let si = (act.sec as usize) % nsec;
            let tk = ticker(si);
            let v = &act.v;
            let mut kind = act.kind;
            // map disallowed kinds
            let is_split = (65..73).contains(&kind);
            let is_unsplit = (73..78).contains(&kind);
            let is_cap = (78..84).contains(&kind);
            let is_acc = (84..90).contains(&kind);
            let is_div = (90..96).contains(&kind);
            if (is_split || is_unsplit) && cfg.splits == SplitMode::None {
                kind = v[7] as u8 % 65;
            }
            if (is_cap || is_acc) && !cfg.events {
                kind = v[7] as u8 % 65;
            }
            if is_div && !cfg.dividends {
                kind = v[7] as u8 % 65;
            }
            if kind >= 96 {
                kind = 0;
            }
            match kind {
                0..=64 => {
                    if st[si].evented_today && !cfg.same_day_events {
                        excluded += 1;
                        continue;
                    }
                    let want_buy = kind < 30 || (50..65).contains(&kind) || !st[si].hold.is_pos();
                    let want_sell = kind >= 30;
                    if want_buy {
                        let q = qty_from(v[0]);
                        let p = price_from(v[1]);
                        let f = fee_from(v[2]);
                        let fills = match v[6] % 10 {
                            0..=6 => 1,
                            7 | 8 => 2,
                            _ => 3,
                        };
                        for (k, (fq, fp, ff)) in split_fills(q, p, f, fills, v[7]).into_iter().enumerate() {
                            let _ = k;
                            day_buys.entry(si).or_default().push(Tx {
                                date,
                                ticker: tk.clone(),
                                op: Op::Buy { q: fq, p: Money::gbp(fp), f: Money::gbp(ff) },
                            });
                        }
                        st[si].hold += Rat::from_dec(q);
                        st[si].traded_today = true;
                    }
                    if want_sell && st[si].hold.is_pos() {
                        let h = st[si].hold.clone();
                        let mode = v[3] % 8;
                        let q: Decimal = if mode <= 1 {
                            floor_dec(&h, 12)
                        } else {
                            let frac = Rat::from_frac(((v[3] / 8) % 100) as i64 + 1, 101);
                            let target = &h * &frac;
                            let int = floor_dec(&target, 0);
                            if int > Decimal::ZERO { int } else { floor_dec(&target, 4) }
                        };
                        if q > Decimal::ZERO && Rat::from_dec(q) <= h {
                            let p = price_from(v[4]);
                            let f = fee_from(v[5]);
                            let fills = match (v[6] / 10) % 10 {
                                0..=6 => 1,
                                7 | 8 => 2,
                                _ => 3,
                            };
                            for (fq, fp, ff) in split_fills(q, p, f, fills, v[7].rotate_left(3)) {
                                day_sells.entry(si).or_default().push(Tx {
                                    date,
                                    ticker: tk.clone(),
                                    op: Op::Sell { q: fq, p: Money::gbp(fp), f: Money::gbp(ff) },
                                });
                            }
                            st[si].hold -= Rat::from_dec(q);
                            st[si].traded_today = true;
                        }
                    }
                }
                65..=77 => {
                    if (st[si].traded_today || st[si].evented_today) && !cfg.same_day_events {
                        excluded += 1;
                        continue;
                    }
                    let table: &[&str] = if cfg.splits == SplitMode::Residue && v[7] % 3 != 0 {
                        &RESIDUE_RATIOS
                    } else {
                        &TERM_RATIOS
                    };
                    let ratio = dec(table[(v[0] as usize) % table.len()]);
                    let rr = Rat::from_dec(ratio);
                    if kind < 73 {
                        st[si].hold = &st[si].hold * &rr;
                        day_other.push(Tx { date, ticker: tk.clone(), op: Op::Split { r: ratio } });
                    } else {
                        st[si].hold = &st[si].hold / &rr;
                        day_other.push(Tx { date, ticker: tk.clone(), op: Op::Unsplit { r: ratio } });
                    }
                    st[si].evented_today = true;
                }
                78..=89 => {
                    if (st[si].traded_today || st[si].evented_today) && !cfg.same_day_events {
                        excluded += 1;
                        continue;
                    }
                    // size relative to what the model says is left in the pool (ignoring events)
                    let mut prefix = ledger.clone();
                    for (_, b) in &day_buys {
                        prefix.extend(b.iter().cloned());
                    }
                    let est = model::evaluate(&prefix, &model::NoFx, model::Quirks::default())
                        .ok()
                        .and_then(|m| m.secs.get(&tk).map(|s| (s.closing_cost.clone(), s.closing_qty.clone())));
                    let (pool_cost, pool_qty) = est.unwrap_or((Rat::zero(), Rat::zero()));
                    let prior_adj: Rat = ledger
                        .iter()
                        .filter(|t| t.ticker == tk)
                        .map(|t| match &t.op {
                            Op::CapRet { total, fees, .. } => Rat::zero() - (Rat::from_dec(total.a) - Rat::from_dec(fees.a)),
                            Op::Acc { total, .. } => Rat::from_dec(total.a),
                            _ => Rat::zero(),
                        })
                        .sum();
                    let qshares = if pool_qty.is_pos() { floor_dec(&pool_qty, 6).max(Decimal::ONE) } else { Decimal::from(10) };
                    if kind < 84 {
                        // CAPRETURN: net <= 50% of a lower bound of the remaining cost
                        let base = (pool_cost + prior_adj.min(Rat::zero())).max(Rat::zero());
                        let pct = Rat::from_frac((v[1] % 50) as i64 + 1, 100);
                        let net = floor_dec(&(&base * &pct), 2);
                        let fees = if v[2] % 3 == 0 { Decimal::new((v[2] / 3 % 500) as i64, 2) } else { Decimal::ZERO };
                        if net > Decimal::ZERO || !st[si].hold.is_pos() {
                            let net = if st[si].hold.is_pos() { net } else { Decimal::new(1 + v[1] as i64, 2) };
                            day_other.push(Tx {
                                date,
                                ticker: tk.clone(),
                                op: Op::CapRet { q: qshares, total: Money::gbp(net + fees), fees: Money::gbp(fees) },
                            });
                            st[si].evented_today = true;
                        }
                    } else {
                        let total = Decimal::new(1 + (v[1] as i64) * 3, 2);
                        let tax = if v[2] % 3 == 0 { Decimal::new((v[2] / 3 % 500) as i64, 2) } else { Decimal::ZERO };
                        day_other.push(Tx {
                            date,
                            ticker: tk.clone(),
                            op: Op::Acc { q: qshares, total: Money::gbp(total), tax: Money::gbp(tax) },
                        });
                        st[si].evented_today = true;
                    }
                }
                _ => {
                    // dividend: any ticker, possibly one never held
                    let name = if v[0] % 4 == 0 { "ZZDIV".to_string() } else { tk.clone() };
                    let total = Decimal::new(1 + v[1] as i64, 2);
                    let tax = if v[2] % 2 == 0 { Decimal::new((v[2] / 2 % 2000) as i64, 2) } else { Decimal::ZERO };
                    day_other.push(Tx { date, ticker: name, op: Op::Div { total: Money::gbp(total), tax: Money::gbp(tax) } });
                }
            }
        }
        // splits/events placed on a day where the same security later traded must go: re-check
        let traded: Vec<String> = day_buys.keys().chain(day_sells.keys()).map(|i| ticker(*i)).collect();
        let before = day_other.len();
        let keep_all = cfg.same_day_events;
        day_other.retain(|t| keep_all || matches!(t.op, Op::Div { .. }) || !traded.contains(&t.ticker));
        if day_other.len() != before {
            // undo holdings effect of dropped splits is complex; instead rebuild holdings below
            excluded += (before - day_other.len()) as u64;
        }
        for (si, b) in day_buys {
            let _ = si;
            ledger.extend(b);
        }
        for (si, s) in day_sells {
            let _ = si;
            ledger.extend(s);
        }
        ledger.extend(day_other);
        // recompute exact holdings from the ledger (robust against dropped acts)
        if let Ok(agg) = model::aggregate(&ledger, &model::NoFx) {
            for (i, s) in st.iter_mut().enumerate() {
                let mut h = Rat::zero();
                if let Some(days) = agg.get(&ticker(i)) {
                    for dd in days {
                        h = (&h + &dd.b - &dd.s) * &dd.ratio;
                    }
                }
                s.hold = h;
            }
        }
    }
    let mut ledger: Vec<Tx> = ledger.split_off(prior_len);
    if cfg.shuffle && !r.perm.is_empty() {
        let n = ledger.len();
        let mut keyed: Vec<(u16, usize, Tx)> =
            ledger.into_iter().enumerate().map(|(i, t)| (r.perm[i % r.perm.len()].wrapping_add((i / r.perm.len()) as u16), i, t)).collect();
        keyed.sort_by(|a, b| a.0.cmp(&b.0).then(a.1.cmp(&b.1)));
        ledger = keyed.into_iter().map(|(_, _, t)| t).collect();
        debug_assert_eq!(ledger.len(), n);
    }
    GenLedger { ledger, excluded }
}

/// Break (q, p, fee) into `n` fills with the same total quantity, consideration and fees.
/// Prices are perturbed by +/-delta with sum(q_i * delta_i) = 0, all exactly representable.
pub fn split_fills(q: Decimal, p: Decimal, f: Decimal, n: usize, salt: u16) -> Vec<(Decimal, Decimal, Decimal)> {
    if n <= 1 || q.scale() > 8 {
        return vec![(q, p, f)];
    }
    let tenth = Decimal::new(1, 1);
    let k1 = Decimal::from(1 + (salt % 9));
    let a = q * k1 * tenth;
    let rest = q - a;
    if a <= Decimal::ZERO || rest <= Decimal::ZERO {
        return vec![(q, p, f)];
    }
    // fill prices: p + d*rest, p - d*a  =>  a*(p + d*rest) + rest*(p - d*a) = q*p
    let d = Decimal::new(1 + ((salt / 9) % 5) as i64, 3);
    let pa = p + d * rest;
    let pb = p - d * a;
    let (pa, pb) = if pb > Decimal::ZERO && salt % 4 != 0 { (pa, pb) } else { (p, p) };
    let fa = (f * Decimal::new(3, 1)).round_dp(2);
    let fb = f - fa;
    if n == 2 {
        return vec![(a, pa, fa), (rest, pb, fb)];
    }
    let k2 = Decimal::from(1 + ((salt / 45) % 9));
    let b = rest * k2 * tenth;
    let c = rest - b;
    if b <= Decimal::ZERO || c <= Decimal::ZERO {
        return vec![(a, pa, fa), (rest, pb, fb)];
    }
    vec![(a, pa, fa), (b, pb, fb), (c, pb, Decimal::ZERO)]
}

/// Make same-day same-security same-kind trade lines adjacent (stable), preserving
/// everything else. This is the canonical form in which cgt-core merges fills.
pub fn canonicalize(ledger: &[Tx]) -> Vec<Tx> {
    let mut idx: Vec<usize> = (0..ledger.len()).collect();
    idx.sort_by(|&a, &b| ledger[a].date.cmp(&ledger[b].date).then(a.cmp(&b)));
    let sorted: Vec<Tx> = idx.iter().map(|&i| ledger[i].clone()).collect();
    let mut out: Vec<Tx> = vec![];
    let mut i = 0;
    while i < sorted.len() {
        let mut j = i;
        while j < sorted.len() && sorted[j].date == sorted[i].date {
            j += 1;
        }
        let day = &sorted[i..j];
        let mut seen: Vec<(String, u8)> = vec![];
        for t in day {
            let kind = match t.op {
                Op::Buy { .. } => 0u8,
                Op::Sell { .. } => 1,
                _ => 2,
            };
            if kind == 2 {
                continue;
            }
            let key = (t.ticker.to_uppercase(), kind);
            if seen.contains(&key) {
                continue;
            }
            seen.push(key.clone());
            for u in day {
                let k2 = match u.op {
                    Op::Buy { .. } => 0u8,
                    Op::Sell { .. } => 1,
                    _ => 2,
                };
                if k2 == kind && u.ticker.to_uppercase() == key.0 {
                    out.push(u.clone());
                }
            }
        }
        for t in day {
            if !t.is_trade() {
                out.push(t.clone());
            }
        }
        i = j;
    }
    out
}

/// True if, after a stable sort by date, some (date, security) has >= 2 BUY lines (or SELL
/// lines) that are not contiguous — the shape in which cgt-core keeps separate lots.
pub fn has_nonadjacent_same_day_lots(ledger: &[Tx]) -> bool {
    let mut idx: Vec<usize> = (0..ledger.len()).collect();
    idx.sort_by(|&a, &b| ledger[a].date.cmp(&ledger[b].date).then(a.cmp(&b)));
    let sorted: Vec<&Tx> = idx.iter().map(|&i| &ledger[i]).collect();
    for (i, t) in sorted.iter().enumerate() {
        if !matches!(t.op, Op::Buy { .. }) {
            continue;
        }
        // find a later BUY same date+ticker with a different line in between
        let mut gap = false;
        for u in sorted.iter().skip(i + 1) {
            if u.date != t.date {
                break;
            }
            let same = u.ticker.eq_ignore_ascii_case(&t.ticker) && matches!(u.op, Op::Buy { .. });
            if same && gap {
                return true;
            }
            if !same {
                gap = true;
            }
        }
    }
    false
}

/// Placements outside the domain of every ledger check: SPLIT/UNSPLIT or CAPRETURN/ACCUMULATION
/// of T on a date that also carries a BUY/SELL of T.
pub fn has_excluded_placement(ledger: &[Tx]) -> bool {
    for t in ledger {
        if t.is_split() || t.is_event() {
            if ledger.iter().any(|u| u.is_trade() && u.date == t.date && u.ticker.eq_ignore_ascii_case(&t.ticker)) {
                return true;
            }
        }
    }
    false
}

/// C10 twin: rewrite everything dated before the chosen SPLIT/UNSPLIT line (index into the
/// ledger) in post-split units — quantities (and event share counts) multiplied by the
/// ratio, unit prices divided by it — and delete the line. None if some rescaled number is
/// not exactly representable as a Decimal.
pub fn rescale_twin_one(ledger: &[Tx], split_idx: usize) -> Option<Vec<Tx>> {
    let sp = ledger.get(split_idx)?;
    let ratio = match &sp.op {
        Op::Split { r } => Rat::from_dec(*r),
        Op::Unsplit { r } => Rat::from_dec(*r).recip(),
        _ => return None,
    };
    let tk = sp.ticker.to_uppercase();
    let mut out = vec![];
    for (i, t) in ledger.iter().enumerate() {
        if i == split_idx {
            continue;
        }
        if t.ticker.to_uppercase() != tk || t.date > sp.date || (t.date == sp.date && !before_in_day(ledger, i, split_idx)) {
            out.push(t.clone());
            continue;
        }
        let mulq = |q: &Decimal| (Rat::from_dec(*q) * &ratio).to_dec_exact();
        let divp = |m: &Money| (Rat::from_dec(m.a) / &ratio).to_dec_exact().map(|a| Money { a, c: m.c.clone() });
        let op = match &t.op {
            Op::Buy { q, p, f } => Op::Buy { q: mulq(q)?, p: divp(p)?, f: f.clone() },
            Op::Sell { q, p, f } => Op::Sell { q: mulq(q)?, p: divp(p)?, f: f.clone() },
            Op::CapRet { q, total, fees } => Op::CapRet { q: mulq(q)?, total: total.clone(), fees: fees.clone() },
            Op::Acc { q, total, tax } => Op::Acc { q: mulq(q)?, total: total.clone(), tax: tax.clone() },
            // an earlier split of the same security keeps its ratio
            other => other.clone(),
        };
        out.push(Tx { date: t.date, ticker: t.ticker.clone(), op });
    }
    Some(out)
}

/// Same-date ordering only matters for lines of the excluded placements; for safety lines on
/// the split's own date are treated as "before" only if they are splits (which commute).
fn before_in_day(ledger: &[Tx], i: usize, split_idx: usize) -> bool {
    let _ = split_idx;
    !ledger[i].is_trade() && !ledger[i].is_event() && false
}

/// Remove every SPLIT/UNSPLIT by rewriting the ledger in final units.
pub fn rescale_all(ledger: &[Tx]) -> Option<Vec<Tx>> {
    let mut cur = ledger.to_vec();
    loop {
        // earliest split first
        let mut best: Option<usize> = None;
        for (i, t) in cur.iter().enumerate() {
            if t.is_split() && best.map(|b| t.date < cur[b].date).unwrap_or(true) {
                best = Some(i);
            }
        }
        match best {
            None => return Some(cur),
            Some(i) => cur = rescale_twin_one(&cur, i)?,
        }
    }
}

/// true if some security has a SPLIT/UNSPLIT dated before (or on) a CAPRETURN/ACCUMULATION
pub fn has_split_before_event(ledger: &[Tx]) -> bool {
    ledger.iter().any(|e| {
        e.is_event()
            && ledger.iter().any(|s| s.is_split() && s.ticker.eq_ignore_ascii_case(&e.ticker) && s.date <= e.date)
    })
}
