//! Adapter around the code under test: calling cgt-core with panic capture, the all-years
//! exemption config, and comparison helpers between a TaxReport and the reference model.

use crate::led::{self, Tx};
use crate::model::{MDisposal, ModelResult, Rule};
use crate::rat::Rat;
use crate::runner::Obs;
use cgt_core::calculator::calculate;
use cgt_core::{CgtError, Config, Disposal, MatchRule, TaxReport};
use cgt_money::FxCache;
use chrono::NaiveDate;
use rust_decimal::Decimal;
use std::cell::RefCell;
use std::collections::{BTreeMap, HashMap};
use std::panic::{catch_unwind, AssertUnwindSafe};
use std::sync::Once;

thread_local! {
    static LAST_PANIC: RefCell<Option<(String, String)>> = const { RefCell::new(None) };
}
static HOOK: Once = Once::new();

pub fn install_panic_hook() {
    HOOK.call_once(|| {
        let prev = std::panic::take_hook();
        std::panic::set_hook(Box::new(move |info| {
            let msg = if let Some(s) = info.payload().downcast_ref::<&str>() {
                s.to_string()
            } else if let Some(s) = info.payload().downcast_ref::<String>() {
                s.clone()
            } else {
                "<non-string panic>".to_string()
            };
            let loc = info.location().map(|l| format!("{}:{}", l.file(), l.line())).unwrap_or_default();
            let quiet = CAPTURING.with(|c| *c.borrow());
            LAST_PANIC.with(|p| *p.borrow_mut() = Some((msg, loc)));
            if !quiet {
                prev(info);
            }
        }));
    });
}

thread_local! {
    static CAPTURING: RefCell<bool> = const { RefCell::new(false) };
}

#[derive(Debug, Clone)]
pub struct PanicInfo {
    pub msg: String,
    pub loc: String,
}

impl PanicInfo {
    /// F7 signature: rust_decimal arithmetic overflow panics raised inside rust_decimal.
    pub fn is_decimal_overflow(&self) -> bool {
        let m = self.msg.as_str();
        let known = [
            "Multiplication overflowed",
            "Addition overflowed",
            "Subtraction overflowed",
            "Division overflowed",
            "Pow overflowed",
        ];
        known.iter().any(|k| m == *k) && self.loc.contains("rust_decimal")
    }
}

/// Run `f` capturing a panic (message + location) instead of unwinding further.
pub fn guarded<T>(f: impl FnOnce() -> T) -> Result<T, PanicInfo> {
    install_panic_hook();
    CAPTURING.with(|c| *c.borrow_mut() = true);
    LAST_PANIC.with(|p| *p.borrow_mut() = None);
    let r = catch_unwind(AssertUnwindSafe(f));
    CAPTURING.with(|c| *c.borrow_mut() = false);
    match r {
        Ok(v) => Ok(v),
        Err(_) => {
            let (msg, loc) = LAST_PANIC.with(|p| p.borrow_mut().take()).unwrap_or_default();
            Err(PanicInfo { msg, loc })
        }
    }
}

/// Exemption configured for every start year 1900..=2100 (value depends on the year so that a
/// mixed-up lookup is visible).
pub fn all_years_config() -> Config {
    let mut exemptions = HashMap::new();
    for y in 1900u16..=2100 {
        exemptions.insert(y, all_years_exemption(y));
    }
    Config { exemptions }
}

pub fn all_years_exemption(y: u16) -> Decimal {
    Decimal::from(1000 + (y as i64 % 97) * 100)
}

#[derive(Debug)]
pub enum Outcome {
    Ok(TaxReport),
    Err(CgtError),
    Panic(PanicInfo),
}

impl Outcome {
    pub fn describe(&self) -> String {
        match self {
            Outcome::Ok(_) => "Ok(report)".into(),
            Outcome::Err(e) => format!("Err({e})"),
            Outcome::Panic(p) => format!("PANIC '{}' at {}", p.msg, p.loc),
        }
    }
}

pub fn calc_with(ledger: &[Tx], year: Option<i32>, fx: Option<&FxCache>, cfg: &Config) -> Outcome {
    let txs = led::to_core(ledger);
    match guarded(|| calculate(&txs, year, fx, cfg)) {
        Ok(Ok(r)) => Outcome::Ok(r),
        Ok(Err(e)) => Outcome::Err(e),
        Err(p) => Outcome::Panic(p),
    }
}

thread_local! {
    static ALL_YEARS: Config = all_years_config();
}

/// GBP-only calculation over all years with the all-years config.
pub fn calc(ledger: &[Tx]) -> Outcome {
    ALL_YEARS.with(|c| calc_with(ledger, None, None, c))
}

pub fn calc_year(ledger: &[Tx], year: Option<i32>) -> Outcome {
    ALL_YEARS.with(|c| calc_with(ledger, year, None, c))
}

// ---------- tolerances ----------

pub fn tol_qty() -> Rat {
    Rat::from_str_dec("0.000000000001").expect("lit")
}
pub fn tol_money() -> Rat {
    Rat::from_str_dec("0.000000001").expect("lit")
}

/// quantities: |a-b| <= 1e-12 * max(1,|a|)
pub fn qty_close(model: &Rat, tool: Decimal, obs: &mut Obs) -> bool {
    let t = Rat::from_dec(tool);
    if *model == t {
        obs.exact_cmp += 1;
        return true;
    }
    let scale = model.abs().max(Rat::one());
    let ok = (model - &t).abs() <= tol_qty() * scale;
    if ok {
        obs.tol_cmp += 1;
    }
    ok
}

/// money: |a-b| <= 1e-9 (generated magnitudes <= 1e9)
pub fn money_close(model: &Rat, tool: Decimal, obs: &mut Obs) -> bool {
    let t = Rat::from_dec(tool);
    if *model == t {
        obs.exact_cmp += 1;
        return true;
    }
    let ok = (model - &t).abs() <= tol_money();
    if ok {
        obs.tol_cmp += 1;
    }
    ok
}

pub fn dec_money_close(a: Decimal, b: Decimal, obs: &mut Obs) -> bool {
    money_close(&Rat::from_dec(a), b, obs)
}
pub fn dec_qty_close(a: Decimal, b: Decimal, obs: &mut Obs) -> bool {
    qty_close(&Rat::from_dec(a), b, obs)
}

pub fn rule_of(r: &MatchRule) -> Rule {
    match r {
        MatchRule::SameDay => Rule::SameDay,
        MatchRule::BedAndBreakfast => Rule::Bnb,
        MatchRule::Section104 => Rule::S104,
    }
}

pub fn all_disposals(r: &TaxReport) -> Vec<&Disposal> {
    r.tax_years.iter().flat_map(|y| y.disposals.iter()).collect()
}

type LegKey = (Rule, Option<NaiveDate>);

/// Group legs that share (rule, acquisition date): a purely representational split of one
/// leg into several is not a difference. S104 legs carry no date.
pub fn group_tool_legs(d: &Disposal) -> BTreeMap<LegKey, (Rat, Rat, Rat)> {
    let mut m: BTreeMap<LegKey, (Rat, Rat, Rat)> = BTreeMap::new();
    for l in &d.matches {
        let rule = rule_of(&l.rule);
        let key = (rule, if rule == Rule::S104 { None } else { l.acquisition_date });
        let e = m.entry(key).or_insert((Rat::zero(), Rat::zero(), Rat::zero()));
        e.0 += Rat::from_dec(l.quantity);
        e.1 += Rat::from_dec(l.allowable_cost);
        e.2 += Rat::from_dec(l.gain_or_loss);
    }
    // a leg whose quantity is below the quantity tolerance is rounding dust, not a leg
    let total: Rat = m.values().map(|v| v.0.clone()).sum();
    let cut = tol_qty() * total.abs().max(Rat::one());
    m.retain(|_, v| v.0.abs() > cut);
    m
}

pub fn group_model_legs(d: &MDisposal) -> BTreeMap<LegKey, (Rat, Rat)> {
    let mut m: BTreeMap<LegKey, (Rat, Rat)> = BTreeMap::new();
    for l in &d.legs {
        let key = (l.rule, if l.rule == Rule::S104 { None } else { l.acq });
        let e = m.entry(key).or_insert((Rat::zero(), Rat::zero()));
        e.0 += &l.qty;
        e.1 += &l.cost;
    }
    let total: Rat = m.values().map(|v| v.0.clone()).sum();
    let cut = tol_qty() * total.abs().max(Rat::one());
    m.retain(|_, v| v.0.abs() > cut);
    m
}

fn rat_close(a: &Rat, b: &Rat, tol: &Rat, relative: bool, obs: &mut Obs) -> bool {
    if a == b {
        obs.exact_cmp += 1;
        return true;
    }
    let scale = if relative { a.abs().max(Rat::one()) } else { Rat::one() };
    let ok = (a - b).abs() <= tol * &scale;
    if ok {
        obs.tol_cmp += 1;
    }
    ok
}

/// Compare every disposal of a report with the model: rule, matched quantity and acquisition
/// date of each (grouped) leg; with `costs` also each leg's allowable cost, the disposal's
/// gross/net proceeds and gain.
pub fn compare_report_to_model(r: &TaxReport, m: &ModelResult, costs: bool, obs: &mut Obs) -> Result<(), String> {
    let td = all_disposals(r);
    let md = m.all_disposals();
    let tkeys: Vec<(NaiveDate, String)> = td.iter().map(|d| (d.date, d.ticker.clone())).collect();
    let mkeys: Vec<(NaiveDate, String)> = md.iter().map(|d| (d.date, d.ticker.clone())).collect();
    {
        let mut a = tkeys.clone();
        a.sort();
        let mut b = mkeys.clone();
        b.sort();
        if a != b {
            return Err(format!("disposal set differs: tool {:?} vs model {:?}", a, b));
        }
    }
    let tq = tol_qty();
    let tm = tol_money();
    for mdisp in md {
        let Some(tdisp) = td.iter().find(|d| d.date == mdisp.date && d.ticker == mdisp.ticker) else {
            return Err(format!("tool lacks disposal {} {}", mdisp.ticker, mdisp.date));
        };
        let tg = group_tool_legs(tdisp);
        let mg = group_model_legs(mdisp);
        let tk: Vec<&LegKey> = tg.keys().collect();
        let mk: Vec<&LegKey> = mg.keys().collect();
        if tk != mk {
            return Err(format!(
                "{} {}: leg structure differs: tool {:?} vs model {:?}",
                mdisp.ticker,
                mdisp.date,
                describe_tool_legs(tdisp),
                describe_model_legs(mdisp)
            ));
        }
        for (k, (mq, mc)) in &mg {
            let (tqv, tcv, _) = &tg[k];
            if !rat_close(mq, tqv, &tq, true, obs) {
                return Err(format!(
                    "{} {}: leg {:?} quantity tool {} vs model {} | tool legs {:?} model legs {:?}",
                    mdisp.ticker,
                    mdisp.date,
                    k,
                    tqv,
                    mq,
                    describe_tool_legs(tdisp),
                    describe_model_legs(mdisp)
                ));
            }
            if costs && !rat_close(mc, tcv, &tm, false, obs) {
                return Err(format!(
                    "{} {}: leg {:?} allowable cost tool {} vs model {}",
                    mdisp.ticker, mdisp.date, k, tcv, mc
                ));
            }
        }
        if !qty_close(&mdisp.qty, tdisp.quantity, obs) {
            return Err(format!("{} {}: disposal quantity tool {} vs model {}", mdisp.ticker, mdisp.date, tdisp.quantity, mdisp.qty));
        }
        if costs {
            if !money_close(&mdisp.gross, tdisp.gross_proceeds, obs) {
                return Err(format!("{} {}: gross proceeds tool {} vs model {}", mdisp.ticker, mdisp.date, tdisp.gross_proceeds, mdisp.gross));
            }
            if !money_close(&mdisp.net(), tdisp.proceeds, obs) {
                return Err(format!("{} {}: net proceeds tool {} vs model {}", mdisp.ticker, mdisp.date, tdisp.proceeds, mdisp.net()));
            }
            if !money_close(&mdisp.gain(), tdisp.net_gain_or_loss(), obs) {
                return Err(format!("{} {}: gain tool {} vs model {}", mdisp.ticker, mdisp.date, tdisp.net_gain_or_loss(), mdisp.gain()));
            }
        }
    }
    Ok(())
}

pub fn describe_tool_legs(d: &Disposal) -> Vec<String> {
    d.matches
        .iter()
        .map(|l| format!("{:?} q={} acq={:?} cost={}", rule_of(&l.rule), l.quantity, l.acquisition_date, l.allowable_cost))
        .collect()
}
pub fn describe_model_legs(d: &MDisposal) -> Vec<String> {
    d.legs.iter().map(|l| format!("{:?} q={} acq={:?} cost={}", l.rule, l.qty, l.acq, l.cost)).collect()
}

/// Holdings of a report keyed by ticker, dropping zero-quantity entries.
pub fn holdings_map(r: &TaxReport) -> BTreeMap<String, (Decimal, Decimal)> {
    r.holdings.iter().filter(|h| !h.quantity.is_zero()).map(|h| (h.ticker.clone(), (h.quantity, h.total_cost))).collect()
}

/// Structural + numeric equality of two reports minus the echoed transactions (used by the
/// metamorphic checks). Legs are grouped as in C01.
pub fn reports_equivalent(a: &TaxReport, b: &TaxReport, obs: &mut Obs) -> Result<(), String> {
    reports_equivalent_mode(a, b, obs, false)
}

pub fn reports_equivalent_mode(a: &TaxReport, b: &TaxReport, obs: &mut Obs, ignore_leg_gain: bool) -> Result<(), String> {
    if a.tax_years.len() != b.tax_years.len() {
        return Err(format!(
            "tax year count {} vs {}",
            a.tax_years.len(),
            b.tax_years.len()
        ));
    }
    for (ya, yb) in a.tax_years.iter().zip(b.tax_years.iter()) {
        if ya.period != yb.period {
            return Err(format!("tax year {} vs {}", ya.period, yb.period));
        }
        let p = ya.period;
        for (name, x, y) in [
            ("total_gain", ya.total_gain, yb.total_gain),
            ("total_loss", ya.total_loss, yb.total_loss),
            ("net_gain", ya.net_gain, yb.net_gain),
            ("exempt_amount", ya.exempt_amount, yb.exempt_amount),
            ("dividend_income", ya.dividend_income, yb.dividend_income),
            ("dividend_tax_paid", ya.dividend_tax_paid, yb.dividend_tax_paid),
        ] {
            if !dec_money_close(x, y, obs) {
                return Err(format!("{p} {name}: {x} vs {y}"));
            }
        }
        if ya.disposals.len() != yb.disposals.len() {
            return Err(format!("{p} disposal count {} vs {}", ya.disposals.len(), yb.disposals.len()));
        }
        for (da, db) in ya.disposals.iter().zip(yb.disposals.iter()) {
            disposals_equivalent_mode(da, db, obs, ignore_leg_gain).map_err(|e| format!("{p}: {e}"))?;
        }
    }
    let ha = holdings_map(a);
    let hb = holdings_map(b);
    if ha.keys().collect::<Vec<_>>() != hb.keys().collect::<Vec<_>>() {
        return Err(format!("holdings tickers {:?} vs {:?}", ha.keys().collect::<Vec<_>>(), hb.keys().collect::<Vec<_>>()));
    }
    for (k, (qa, ca)) in &ha {
        let (qb, cb) = hb[k];
        if !dec_qty_close(*qa, qb, obs) {
            return Err(format!("holding {k} quantity {qa} vs {qb}"));
        }
        if !dec_money_close(*ca, cb, obs) {
            return Err(format!("holding {k} cost {ca} vs {cb}"));
        }
    }
    Ok(())
}

pub fn disposals_equivalent(da: &Disposal, db: &Disposal, obs: &mut Obs) -> Result<(), String> {
    disposals_equivalent_mode(da, db, obs, false)
}

/// With `ignore_leg_gain` the split of a disposal's gain over its legs is not compared (the
/// disposal's total gain still is).
pub fn disposals_equivalent_mode(da: &Disposal, db: &Disposal, obs: &mut Obs, ignore_leg_gain: bool) -> Result<(), String> {
    if da.date != db.date || !da.ticker.eq_ignore_ascii_case(&db.ticker) {
        return Err(format!("disposal {} {} vs {} {}", da.ticker, da.date, db.ticker, db.date));
    }
    let id = format!("{} {}", da.ticker, da.date);
    if !dec_qty_close(da.quantity, db.quantity, obs) {
        return Err(format!("{id} quantity {} vs {}", da.quantity, db.quantity));
    }
    if !dec_money_close(da.gross_proceeds, db.gross_proceeds, obs) {
        return Err(format!("{id} gross {} vs {}", da.gross_proceeds, db.gross_proceeds));
    }
    if !dec_money_close(da.proceeds, db.proceeds, obs) {
        return Err(format!("{id} proceeds {} vs {}", da.proceeds, db.proceeds));
    }
    let ga = group_tool_legs(da);
    let gb = group_tool_legs(db);
    if ga.keys().collect::<Vec<_>>() != gb.keys().collect::<Vec<_>>() {
        return Err(format!("{id} leg structure {:?} vs {:?}", describe_tool_legs(da), describe_tool_legs(db)));
    }
    let tq = tol_qty();
    let tm = tol_money();
    for (k, (q, c, g)) in &ga {
        let (q2, c2, g2) = &gb[k];
        if !rat_close(q, q2, &tq, true, obs) {
            return Err(format!("{id} leg {k:?} quantity {q} vs {q2}"));
        }
        if !rat_close(c, c2, &tm, false, obs) {
            return Err(format!("{id} leg {k:?} cost {c} vs {c2}"));
        }
        if !ignore_leg_gain && !rat_close(g, g2, &tm, false, obs) {
            return Err(format!("{id} leg {k:?} gain {g} vs {g2}"));
        }
    }
    let ta: Rat = ga.values().map(|v| v.2.clone()).sum();
    let tb: Rat = gb.values().map(|v| v.2.clone()).sum();
    if !rat_close(&ta, &tb, &tm, false, obs) {
        return Err(format!("{id} total gain {ta} vs {tb}"));
    }
    Ok(())
}

/// Short description of a ledger for evidence samples.
pub fn sample_of(ledger: &[Tx]) -> serde_json::Value {
    serde_json::Value::Array(led::dsl_lines(ledger).into_iter().map(serde_json::Value::String).collect())
}


/// F17 shape: some (date, security) has two SELL lines with different unit price or fees that are
/// not on adjacent lines once the ledger is stably sorted by date (cgt-core then keeps them as
/// separate sales, each apportioning its own price and fees over the legs it happens to get).
pub fn has_nonadjacent_unequal_sells(ledger: &[Tx]) -> bool {
    let mut idx: Vec<usize> = (0..ledger.len()).collect();
    idx.sort_by(|&a, &b| ledger[a].date.cmp(&ledger[b].date).then(a.cmp(&b)));
    let sorted: Vec<&Tx> = idx.iter().map(|&i| &ledger[i]).collect();
    for (i, t) in sorted.iter().enumerate() {
        let crate::led::Op::Sell { q, p, f } = &t.op else { continue };
        let mut gap = false;
        for u in sorted.iter().skip(i + 1) {
            if u.date != t.date {
                break;
            }
            match &u.op {
                crate::led::Op::Sell { q: q2, p: p2, f: f2 } if u.ticker.eq_ignore_ascii_case(&t.ticker) => {
                    let differs = p.a != p2.a || p.c != p2.c || (f.a * *q2) != (f2.a * *q) || f.c != f2.c;
                    if gap && differs {
                        return true;
                    }
                }
                _ => gap = true,
            }
        }
    }
    false
}

pub enum Equiv {
    Same,
    /// equal except for how a disposal's gain is split over its legs, in the F17 shape
    F17,
    Different(String),
}

pub fn f17_verdict() -> crate::runner::Verdict {
    crate::runner::Verdict::Known {
        finding: "F17",
        what: "same-day sales of one security on non-adjacent input lines are kept as separate sales, so the split of the day's proceeds, fees and gain over the disposal's legs depends on line order (disposal totals do not)".into(),
    }
}

/// Compare two reports that must be equal under a reordering/regrouping of the same lines.
pub fn equivalent_or_f17(a: &TaxReport, la: &[Tx], b: &TaxReport, lb: &[Tx], obs: &mut Obs) -> Equiv {
    match reports_equivalent(a, b, obs) {
        Ok(()) => Equiv::Same,
        Err(e) => {
            let mut scratch = Obs::default();
            if (has_nonadjacent_unequal_sells(la) || has_nonadjacent_unequal_sells(lb)) && reports_equivalent_mode(a, b, &mut scratch, true).is_ok() {
                Equiv::F17
            } else {
                Equiv::Different(e)
            }
        }
    }
}
