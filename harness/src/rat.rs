//! Exact rationals over num-bigint (num-rational is not in the offline cache).
//! Always kept normalised: den > 0, gcd(num, den) == 1.

use num_bigint::BigInt;
use num_integer::Integer;
use num_traits::{One, Signed, ToPrimitive, Zero};
use rust_decimal::Decimal;
use std::cmp::Ordering;
use std::fmt;
use std::ops::{Add, AddAssign, Div, Mul, Neg, Sub, SubAssign};

#[derive(Clone, PartialEq, Eq, Hash)]
pub struct Rat {
    n: BigInt,
    d: BigInt,
}

impl Rat {
    pub fn new(n: BigInt, d: BigInt) -> Rat {
        assert!(!d.is_zero(), "Rat with zero denominator");
        let g = n.gcd(&d);
        let (mut n, mut d) = if g.is_zero() { (n, d) } else { (n / &g, d / &g) };
        if d.is_negative() {
            n = -n;
            d = -d;
        }
        Rat { n, d }
    }
    pub fn zero() -> Rat {
        Rat { n: BigInt::zero(), d: BigInt::one() }
    }
    pub fn one() -> Rat {
        Rat { n: BigInt::one(), d: BigInt::one() }
    }
    pub fn from_i64(v: i64) -> Rat {
        Rat { n: BigInt::from(v), d: BigInt::one() }
    }
    pub fn from_frac(n: i64, d: i64) -> Rat {
        Rat::new(BigInt::from(n), BigInt::from(d))
    }
    /// Exact conversion of a rust_decimal value (mantissa / 10^scale).
    pub fn from_dec(d: Decimal) -> Rat {
        let m = BigInt::from(d.mantissa());
        let s = BigInt::from(10u8).pow(d.scale());
        Rat::new(m, s)
    }
    /// Exact conversion from a plain decimal literal such as "12.50".
    pub fn from_str_dec(s: &str) -> Option<Rat> {
        let s = s.trim();
        let (neg, s) = match s.strip_prefix('-') {
            Some(r) => (true, r),
            None => (false, s),
        };
        let (ip, fp) = match s.split_once('.') {
            Some((a, b)) => (a, b),
            None => (s, ""),
        };
        if ip.is_empty() && fp.is_empty() {
            return None;
        }
        if !ip.chars().all(|c| c.is_ascii_digit()) || !fp.chars().all(|c| c.is_ascii_digit()) {
            return None;
        }
        let digits = format!("{ip}{fp}");
        let n: BigInt = if digits.is_empty() { BigInt::zero() } else { digits.parse().ok()? };
        let d = BigInt::from(10u8).pow(fp.len() as u32);
        let r = Rat::new(n, d);
        Some(if neg { -r } else { r })
    }
    pub fn is_zero(&self) -> bool {
        self.n.is_zero()
    }
    pub fn is_pos(&self) -> bool {
        self.n.is_positive()
    }
    pub fn is_neg(&self) -> bool {
        self.n.is_negative()
    }
    pub fn abs(&self) -> Rat {
        Rat { n: self.n.abs(), d: self.d.clone() }
    }
    pub fn min(self, o: Rat) -> Rat {
        if self <= o { self } else { o }
    }
    pub fn max(self, o: Rat) -> Rat {
        if self >= o { self } else { o }
    }
    pub fn recip(&self) -> Rat {
        Rat::new(self.d.clone(), self.n.clone())
    }
    pub fn to_f64(&self) -> f64 {
        // good enough for reporting and tolerance scaling
        let n = self.n.to_f64().unwrap_or(f64::NAN);
        let d = self.d.to_f64().unwrap_or(f64::NAN);
        if n.is_finite() && d.is_finite() {
            n / d
        } else {
            // scale down
            let bits = (self.n.bits().max(self.d.bits())).saturating_sub(900);
            let n2 = (&self.n >> bits).to_f64().unwrap_or(f64::NAN);
            let d2 = (&self.d >> bits).to_f64().unwrap_or(f64::NAN);
            n2 / d2
        }
    }
    /// true iff denominator has only factors 2 and 5 (finite decimal expansion)
    pub fn is_terminating(&self) -> bool {
        let mut d = self.d.clone();
        let two = BigInt::from(2);
        let five = BigInt::from(5);
        while (&d % &two).is_zero() {
            d /= &two;
        }
        while (&d % &five).is_zero() {
            d /= &five;
        }
        d.is_one()
    }
    /// Round half away from zero to `dp` decimal places, returned as a scaled integer
    /// (value * 10^dp).
    pub fn round_half_away_scaled(&self, dp: u32) -> BigInt {
        let scale = BigInt::from(10u8).pow(dp);
        let num = &self.n * &scale;
        let two = BigInt::from(2);
        // floor((2*|num| + d) / (2d)) with sign
        let a = num.abs();
        let q = (&a * &two + &self.d).div_floor(&(&self.d * &two));
        if num.is_negative() { -q } else { q }
    }
    /// Decimal string with exactly `dp` places, half away from zero.
    pub fn to_fixed(&self, dp: u32) -> String {
        let v = self.round_half_away_scaled(dp);
        let neg = v.is_negative();
        let s = v.abs().to_string();
        let s = if (s.len() as u32) <= dp {
            format!("{}{}", "0".repeat((dp as usize) + 1 - s.len()), s)
        } else {
            s
        };
        let (ip, fp) = s.split_at(s.len() - dp as usize);
        let body = if dp == 0 { ip.to_string() } else { format!("{ip}.{fp}") };
        if neg { format!("-{body}") } else { body }
    }
    /// Exact decimal string if terminating, otherwise None.
    pub fn to_exact_decimal(&self) -> Option<String> {
        if !self.is_terminating() {
            return None;
        }
        // find scale
        let mut scale = 0u32;
        let ten = BigInt::from(10);
        let mut n = self.n.clone();
        let mut d = self.d.clone();
        while !d.is_one() {
            n *= &ten;
            let g = n.gcd(&d);
            n /= &g;
            d /= &g;
            scale += 1;
            if scale > 400 {
                return None;
            }
        }
        let neg = n.is_negative();
        let s = n.abs().to_string();
        let s = if (s.len() as u32) <= scale {
            format!("{}{}", "0".repeat((scale as usize) + 1 - s.len()), s)
        } else {
            s
        };
        let (ip, fp) = s.split_at(s.len() - scale as usize);
        let body = if scale == 0 { ip.to_string() } else { format!("{ip}.{fp}") };
        Some(if neg { format!("-{body}") } else { body })
    }
    /// Convert to Decimal if exactly representable (<= 28 dp and 96-bit mantissa).
    pub fn to_dec_exact(&self) -> Option<Decimal> {
        let s = self.to_exact_decimal()?;
        let d: Decimal = s.parse().ok()?;
        if Rat::from_dec(d) == *self { Some(d) } else { None }
    }
}

impl fmt::Debug for Rat {
    fn fmt(&self, f: &mut fmt::Formatter<'_>) -> fmt::Result {
        fmt::Display::fmt(self, f)
    }
}
impl fmt::Display for Rat {
    fn fmt(&self, f: &mut fmt::Formatter<'_>) -> fmt::Result {
        if let Some(s) = self.to_exact_decimal() {
            if s.len() < 60 {
                return write!(f, "{s}");
            }
        }
        write!(f, "{}(~{})", if self.d.is_one() { format!("{}", self.n) } else { format!("{}/{}", self.n, self.d) }, self.to_f64())
    }
}

impl PartialOrd for Rat {
    fn partial_cmp(&self, o: &Rat) -> Option<Ordering> {
        Some(self.cmp(o))
    }
}
impl Ord for Rat {
    fn cmp(&self, o: &Rat) -> Ordering {
        (&self.n * &o.d).cmp(&(&o.n * &self.d))
    }
}

macro_rules! binop {
    ($tr:ident, $f:ident, $body:expr) => {
        impl $tr<&Rat> for &Rat {
            type Output = Rat;
            fn $f(self, o: &Rat) -> Rat {
                let f: fn(&Rat, &Rat) -> Rat = $body;
                f(self, o)
            }
        }
        impl $tr<Rat> for Rat {
            type Output = Rat;
            fn $f(self, o: Rat) -> Rat {
                (&self).$f(&o)
            }
        }
        impl $tr<&Rat> for Rat {
            type Output = Rat;
            fn $f(self, o: &Rat) -> Rat {
                (&self).$f(o)
            }
        }
        impl $tr<Rat> for &Rat {
            type Output = Rat;
            fn $f(self, o: Rat) -> Rat {
                self.$f(&o)
            }
        }
    };
}
binop!(Add, add, |a, b| Rat::new(&a.n * &b.d + &b.n * &a.d, &a.d * &b.d));
binop!(Sub, sub, |a, b| Rat::new(&a.n * &b.d - &b.n * &a.d, &a.d * &b.d));
binop!(Mul, mul, |a, b| Rat::new(&a.n * &b.n, &a.d * &b.d));
binop!(Div, div, |a, b| Rat::new(&a.n * &b.d, &a.d * &b.n));

impl Neg for Rat {
    type Output = Rat;
    fn neg(self) -> Rat {
        Rat { n: -self.n, d: self.d }
    }
}
impl AddAssign<&Rat> for Rat {
    fn add_assign(&mut self, o: &Rat) {
        *self = &*self + o;
    }
}
impl AddAssign<Rat> for Rat {
    fn add_assign(&mut self, o: Rat) {
        *self = &*self + &o;
    }
}
impl SubAssign<&Rat> for Rat {
    fn sub_assign(&mut self, o: &Rat) {
        *self = &*self - o;
    }
}
impl SubAssign<Rat> for Rat {
    fn sub_assign(&mut self, o: Rat) {
        *self = &*self - &o;
    }
}
impl std::iter::Sum for Rat {
    fn sum<I: Iterator<Item = Rat>>(it: I) -> Rat {
        it.fold(Rat::zero(), |a, b| a + b)
    }
}

#[cfg(test)]
mod tests {
    use super::*;
    #[test]
    fn basics() {
        let a = Rat::from_str_dec("1.25").unwrap();
        let b = Rat::from_frac(1, 3);
        assert_eq!((&a + &b), Rat::from_frac(19, 12));
        assert_eq!(a.to_exact_decimal().unwrap(), "1.25");
        assert!(b.to_exact_decimal().is_none());
        assert_eq!(Rat::from_str_dec("8.125").unwrap().to_fixed(2), "8.13");
        assert_eq!(Rat::from_str_dec("-8.125").unwrap().to_fixed(2), "-8.13");
        assert_eq!(Rat::from_str_dec("0.004").unwrap().to_fixed(2), "0.00");
        assert_eq!(Rat::from_str_dec("-0.005").unwrap().to_fixed(2), "-0.01");
        assert_eq!(Rat::from_frac(2, 3).to_fixed(3), "0.667");
        assert_eq!(Rat::from_dec("12.3400".parse().unwrap()), Rat::from_str_dec("12.34").unwrap());
    }
}
