#![allow(dead_code)]
#[macro_use]
pub mod runner;
pub mod fxtable;
pub mod led;
pub mod lgen;
pub mod model;
pub mod proc;
pub mod props;
pub mod rat;
pub mod tool;
pub mod fuzzing;
pub mod selftest;
