//! Validation of the reference model against data that does not come from the code under
//! test at run time: the repository's golden JSON reports (tests/json/*.json) for its fixture
//! ledgers (tests/inputs/*.cgt). For every fixture inside the model's domain the model's legs
//! (rule, quantity, acquisition date; allowable cost to the penny when the fixture has no
//! CAPRETURN/ACCUMULATION) must equal the golden legs. `./check --selftest` runs it.

use crate::fxtable;
use crate::led;
use crate::model::{self, Fx, Quirks, Rule};
use crate::rat::Rat;
use serde_json::Value;

struct TableFx;
impl Fx for TableFx {
    fn rate(&self, code: &str, year: i32, month: u32) -> Option<Rat> {
        fxtable::bundled().get(&(code.to_string(), year, month)).map(|d| Rat::from_dec(*d))
    }
}

pub fn run() -> i32 {
    let repo = crate::runner::repo_dir();
    let dir = format!("{repo}/tests/inputs");
    let dir = dir.as_str();
    let Ok(rd) = std::fs::read_dir(dir) else {
        eprintln!("cannot read {dir}");
        return 2;
    };
    let mut names: Vec<String> = rd.flatten().filter_map(|e| e.file_name().to_str().map(String::from)).filter(|n| n.ends_with(".cgt")).collect();
    names.sort();
    let (mut checked, mut skipped, mut legs_checked, mut costs_checked) = (0, 0, 0, 0);
    let mut failures = vec![];
    for n in names {
        let stem = n.trim_end_matches(".cgt");
        let Ok(text) = std::fs::read_to_string(format!("{dir}/{n}")) else { continue };
        let Ok(golden_txt) = std::fs::read_to_string(format!("{repo}/tests/json/{stem}.json")) else {
            skipped += 1;
            continue;
        };
        let Ok(golden) = serde_json::from_str::<Value>(&golden_txt) else { continue };
        let Ok(txs) = cgt_core::parser::parse_file(&text) else {
            skipped += 1;
            continue;
        };
        let ledger = led::from_core(&txs);
        if crate::lgen::has_excluded_placement(&ledger) {
            println!("  skip {stem}: split/event on a trade day (outside the model's domain)");
            skipped += 1;
            continue;
        }
        let m = match model::evaluate(&ledger, &TableFx, Quirks::default()) {
            Ok(m) => m,
            Err(e) => {
                println!("  skip {stem}: needs a rate the bundled table lacks {e:?}");
                skipped += 1;
                continue;
            }
        };
        if !m.covered() {
            println!("  skip {stem}: not covered (error fixture)");
            skipped += 1;
            continue;
        }
        checked += 1;
        let with_costs = !m.has_events();
        let years = golden.get("tax_years").and_then(|y| y.as_array()).cloned().unwrap_or_default();
        let mut golden_disposals = 0;
        for y in &years {
            for d in y.get("disposals").and_then(|d| d.as_array()).cloned().unwrap_or_default() {
                golden_disposals += 1;
                let date = d.get("date").and_then(|x| x.as_str()).unwrap_or("");
                let tk = d.get("ticker").and_then(|x| x.as_str()).unwrap_or("");
                let Some(md) = m.secs.get(tk).and_then(|s| s.disposals.iter().find(|x| x.date.to_string() == date)) else {
                    failures.push(format!("{stem}: golden disposal {tk} {date} missing in the model"));
                    continue;
                };
                // group both sides by (rule, acquisition date)
                let mut g: std::collections::BTreeMap<(String, String), (Rat, Rat)> = Default::default();
                for l in d.get("matches").and_then(|x| x.as_array()).cloned().unwrap_or_default() {
                    let rule = l.get("rule").and_then(|x| x.as_str()).unwrap_or("").to_string();
                    let acq = if rule == "Section104" { String::new() } else { l.get("acquisition_date").and_then(|x| x.as_str()).unwrap_or("").to_string() };
                    let q = Rat::from_str_dec(l.get("quantity").and_then(|x| x.as_str()).unwrap_or("0")).unwrap_or_else(Rat::zero);
                    let c = Rat::from_str_dec(l.get("allowable_cost").and_then(|x| x.as_str()).unwrap_or("0")).unwrap_or_else(Rat::zero);
                    let e = g.entry((rule, acq)).or_insert((Rat::zero(), Rat::zero()));
                    e.0 += q;
                    e.1 += c;
                }
                let mut mm: std::collections::BTreeMap<(String, String), (Rat, Rat)> = Default::default();
                for l in &md.legs {
                    let rule = match l.rule {
                        Rule::SameDay => "SameDay",
                        Rule::Bnb => "BedAndBreakfast",
                        Rule::S104 => "Section104",
                    }
                    .to_string();
                    let acq = if l.rule == Rule::S104 { String::new() } else { l.acq.map(|d| d.to_string()).unwrap_or_default() };
                    let e = mm.entry((rule, acq)).or_insert((Rat::zero(), Rat::zero()));
                    e.0 += &l.qty;
                    e.1 += &l.cost;
                }
                if g.keys().collect::<Vec<_>>() != mm.keys().collect::<Vec<_>>() {
                    failures.push(format!("{stem}: {tk} {date}: golden legs {:?} vs model {:?}", g.keys().collect::<Vec<_>>(), mm.keys().collect::<Vec<_>>()));
                    continue;
                }
                for (k, (gq, gc)) in &g {
                    let (mq, mc) = &mm[k];
                    legs_checked += 1;
                    if (gq - mq).abs() > Rat::from_str_dec("0.000000001").expect("lit") {
                        failures.push(format!("{stem}: {tk} {date} {k:?}: golden quantity {gq} vs model {mq}"));
                    }
                    if with_costs {
                        costs_checked += 1;
                        // golden money is rounded to pence per leg; grouped legs may add several roundings
                        if (gc - mc).abs() > Rat::from_str_dec("0.011").expect("lit") {
                            failures.push(format!("{stem}: {tk} {date} {k:?}: golden cost {gc} vs model {mc}"));
                        }
                    }
                }
            }
        }
        let model_disposals: usize = m.secs.values().map(|s| s.disposals.len()).sum();
        // a golden file computed for one --year lists only that year's disposals
        if golden_disposals > model_disposals {
            failures.push(format!("{stem}: golden has {golden_disposals} disposals, model {model_disposals}"));
        }
    }
    println!("model self-test: {checked} fixtures compared ({legs_checked} leg quantities, {costs_checked} leg costs), {skipped} skipped, {} disagreements", failures.len());
    for f in &failures {
        println!("  DISAGREE {f}");
    }
    if failures.is_empty() { 0 } else { 1 }
}
