#![allow(dead_code)]
use cgtverif::{props, runner, tool};

use runner::{Ctx, Tier, Verdict};

fn usage() -> ! {
    eprintln!("usage: cgtverif <C01..C20> [quick|thorough]\n       cgtverif replay <file>");
    std::process::exit(2);
}

fn main() {
    let args: Vec<String> = std::env::args().collect();
    if args.len() < 2 {
        usage();
    }
    tool::install_panic_hook();
    if args[1] == "selftest" {
        std::process::exit(cgtverif::selftest::run());
    }
    if args[1] == "pdfdump" {
        debug_pdf_dump(&args[2]);
        return;
    }
    if args[1] == "fuzzreplay" {
        if args.len() < 4 {
            usage();
        }
        let Ok(data) = std::fs::read(&args[3]) else {
            eprintln!("cannot read {}", args[3]);
            std::process::exit(2);
        };
        match cgtverif::fuzzing::run_target(&args[2], &data) {
            None => {
                eprintln!("unknown fuzz target {}", args[2]);
                std::process::exit(2);
            }
            Some(cgtverif::fuzzing::FuzzOutcome::Ok) => {
                println!("replay {}: property holds on this input", args[3]);
                std::process::exit(0);
            }
            Some(cgtverif::fuzzing::FuzzOutcome::Known(f)) => {
                println!("KNOWN-FINDING: {f} (fuzz input {})", args[3]);
                std::process::exit(0);
            }
            Some(cgtverif::fuzzing::FuzzOutcome::Fail(m)) => {
                println!("{m}");
                let pid = match args[2].as_str() {
                    "ledger" => "C01",
                    "dsl_text" => "C13",
                    _ => "C15",
                };
                println!("VIOLATION property={pid} replay={}", args[3]);
                std::process::exit(1);
            }
        }
    }
    if args[1] == "replay" {
        if args.len() < 3 {
            usage();
        }
        std::process::exit(replay(&args[2]));
    }
    let Some(def) = props::find(&args[1]) else {
        eprintln!("unknown property {}", args[1]);
        std::process::exit(2);
    };
    let tier = match args.get(2).map(|s| s.as_str()).or(std::env::var("VERIF_TIER").ok().as_deref().map(|_| "env")) {
        Some("thorough") => Tier::Thorough,
        Some("env") => {
            if std::env::var("VERIF_TIER").map(|v| v == "thorough").unwrap_or(false) { Tier::Thorough } else { Tier::Quick }
        }
        _ => Tier::Quick,
    };
    let ctx = Ctx::new(def.id, tier);
    let r = std::panic::catch_unwind(std::panic::AssertUnwindSafe(|| {
        if ctx.run_regressions(def.replay) {
            (def.run)(&ctx)
        }
    }));
    if r.is_err() {
        eprintln!("INCONCLUSIVE: harness panicked while running {}", def.id);
        std::process::exit(2);
    }
    let mut assumptions: Vec<&str> = props::COMMON_ASSUMPTIONS.to_vec();
    assumptions.extend_from_slice(def.assumptions);
    std::process::exit(ctx.finish(&assumptions));
}

fn replay(path: &str) -> i32 {
    let Ok(s) = std::fs::read_to_string(path) else {
        eprintln!("cannot read {path}");
        return 2;
    };
    let Ok(v) = serde_json::from_str::<serde_json::Value>(&s) else {
        eprintln!("cannot parse {path}");
        return 2;
    };
    let pid = v.get("property").and_then(|x| x.as_str()).unwrap_or("");
    let check = v.get("check").and_then(|x| x.as_str()).unwrap_or("");
    let Some(def) = props::find(pid) else {
        eprintln!("unknown property {pid}");
        return 2;
    };
    let case = v.get("case").cloned().unwrap_or(serde_json::Value::Null);
    let ctx = Ctx::new(def.id, Tier::Quick);
    match (def.replay)(check, &case) {
        None => {
            eprintln!("property {pid} has no check named {check}");
            2
        }
        Some(verdict) => match ctx.resolve(verdict) {
            Verdict::Pass => {
                println!("replay {path}: property holds on this case");
                0
            }
            Verdict::Known { finding, what } => {
                println!("KNOWN-FINDING: property={pid} {finding} {what}");
                0
            }
            Verdict::Fail(msg) => {
                println!("{msg}");
                println!("VIOLATION property={pid} replay={path}");
                1
            }
        },
    }
}

#[allow(dead_code)]
pub fn debug_pdf_dump(path: &str) {
    let text = std::fs::read_to_string(path).expect("read");
    let txs = cgt_core::parser::parse_file(&text).expect("parse");
    let cfg = tool::all_years_config();
    let fx = cgt_money::load_default_cache().expect("fx");
    let r = cgt_core::calculator::calculate(&txs, None, Some(&fx), &cfg).expect("calc");
    let runs = cgt_formatter_pdf::verif_text_runs(&r).expect("runs");
    for run in runs {
        println!("p{} y={:.1} x={:.1} w={:.1} s={:.1} {:?}", run.page, run.y, run.x, run.width, run.size, run.text);
    }
}
