//! Independent HMRC rate table: the harness's own scanner over the XML files under
//! crates/cgt-money/resources/rates (no cgt-money code involved).

use rust_decimal::Decimal;
use std::collections::BTreeMap;
use std::sync::OnceLock;

pub fn rates_dir() -> String {
    format!("{}/crates/cgt-money/resources/rates", crate::runner::repo_dir())
}

pub type Key = (String, i32, u32);

/// Extract (currencyCode, rateNew) pairs in document order with a plain text scan.
pub fn scan_rates(xml: &str) -> Vec<(String, String)> {
    let mut out = vec![];
    let mut rest = xml;
    while let Some(i) = rest.find("<exchangeRate>") {
        let after = &rest[i + "<exchangeRate>".len()..];
        let end = after.find("</exchangeRate>").unwrap_or(after.len());
        let block = &after[..end];
        let grab = |tag: &str| -> Option<String> {
            let open = format!("<{tag}>");
            let close = format!("</{tag}>");
            let s = block.find(&open)? + open.len();
            let e = block[s..].find(&close)? + s;
            Some(block[s..e].trim().to_string())
        };
        if let (Some(code), Some(rate)) = (grab("currencyCode"), grab("rateNew")) {
            out.push((code.to_uppercase(), rate));
        }
        rest = &after[end..];
    }
    out
}

pub fn bundled() -> &'static BTreeMap<Key, Decimal> {
    static T: OnceLock<BTreeMap<Key, Decimal>> = OnceLock::new();
    T.get_or_init(|| {
        let mut m = BTreeMap::new();
        let Ok(rd) = std::fs::read_dir(rates_dir()) else {
            crate::proc::inconclusive(&format!("cannot read {}", rates_dir()));
        };
        for e in rd.flatten() {
            let name = e.file_name().to_string_lossy().to_string();
            let Some(stem) = name.strip_suffix(".xml") else { continue };
            let mut it = stem.split('-');
            let (Some(y), Some(mo)) = (it.next().and_then(|s| s.parse::<i32>().ok()), it.next().and_then(|s| s.parse::<u32>().ok())) else { continue };
            let Ok(xml) = std::fs::read_to_string(e.path()) else { continue };
            for (code, rate) in scan_rates(&xml) {
                if let Ok(r) = rate.parse::<Decimal>() {
                    m.insert((code, y, mo), r);
                }
            }
        }
        if m.len() < 1000 {
            crate::proc::inconclusive("bundled rate table unexpectedly small");
        }
        m
    })
}

pub fn months() -> Vec<(i32, u32)> {
    let mut v: Vec<(i32, u32)> = bundled().keys().map(|k| (k.1, k.2)).collect();
    v.sort();
    v.dedup();
    v
}

/// Build the XML text of a monthly file.
pub fn make_xml(period_year: i32, period_month: u32, rows: &[(String, String)]) -> String {
    const MON: [&str; 12] = ["Jan", "Feb", "Mar", "Apr", "May", "Jun", "Jul", "Aug", "Sep", "Oct", "Nov", "Dec"];
    let last = match period_month {
        1 | 3 | 5 | 7 | 8 | 10 | 12 => 31,
        2 => 28,
        _ => 30,
    };
    let mn = MON[(period_month as usize - 1) % 12];
    let mut s = format!("<?xml version=\"1.0\" encoding=\"UTF-8\"?>\n<exchangeRateMonthList Period=\"01/{mn}/{period_year} to {last}/{mn}/{period_year}\">\n");
    for (code, rate) in rows {
        s.push_str(&format!("  <exchangeRate>\n    <countryName>X</countryName>\n    <countryCode>XX</countryCode>\n    <currencyName>Y</currencyName>\n    <currencyCode>{code}</currencyCode>\n    <rateNew>{rate}</rateNew>\n  </exchangeRate>\n"));
    }
    s.push_str("</exchangeRateMonthList>\n");
    s
}
