//! Independent exact-arithmetic reference model of TCGA92 s105(1) (same day),
//! s106A (30 days) and s104 (pool), over day aggregates per security.
//!
//! Shares no code with cgt-core. All arithmetic is in exact rationals.
//!
//! Per security, independent of all others:
//!  1. every calendar day is aggregated: B (shares bought), Cb (their cost incl. fees),
//!     S (shares sold), gross, fees, R (product of that day's split ratios, applied
//!     *after* the day's trades);
//!  2. same day: SD = min(S, B - claimed) at cost Cb*SD/B;
//!  3. 30 days: remaining r looks at later acquisition days a, 0 < a-d <= 30, earliest
//!     first; available there = B_a - min(S_a,B_a) - claimed_a; x = min(r*F, avail) in
//!     day-a units where F = product of R over [d, a); leg quantity x/F, cost Cb_a*x/B_a;
//!  4. pool: the rest takes pool_cost*r/pool_qty; unclaimed, un-same-day-matched
//!     acquisitions of the day then enter the pool; then pool_qty *= R;
//!  5. coverage: H_d = H_{d-1}*R_{d-1} + B_d - S_d >= 0 for every day.
//!
//! Claim: if (5) holds for every day then step 4 never runs dry. Proof sketch: the pool
//! before day d holds H_{d-1} plus everything earlier disposals claimed from acquisitions
//! dated >= d (those shares are still "in hand" on paper), so pool >= H_{d-1}; the part of
//! S_d reaching the pool is at most S_d - min(S_d, B_d - claimed_d) <= H_{d-1} whenever
//! S_d <= H_{d-1} + B_d. (Units rescale consistently under R.)
//!
//! `Quirks` lets the model reproduce, switch by switch, behaviours of the tool that are
//! recorded as known findings, so a deviation can be attributed *exactly* to a listed
//! finding (anything else stays a violation).

use crate::led::{Op, Tx};
use crate::rat::Rat;
use chrono::{Datelike, NaiveDate};
use std::collections::BTreeMap;

#[derive(Clone, Copy, Debug, PartialEq, Eq, Hash, PartialOrd, Ord)]
pub enum Rule {
    SameDay,
    Bnb,
    S104,
}

#[derive(Clone, Debug)]
pub struct MLeg {
    pub rule: Rule,
    pub qty: Rat,
    pub acq: Option<NaiveDate>,
    pub cost: Rat,
}

#[derive(Clone, Debug)]
pub struct MDisposal {
    pub date: NaiveDate,
    pub ticker: String,
    pub qty: Rat,
    pub gross: Rat,
    pub fees: Rat,
    pub legs: Vec<MLeg>,
}

impl MDisposal {
    pub fn net(&self) -> Rat {
        &self.gross - &self.fees
    }
    pub fn cost(&self) -> Rat {
        self.legs.iter().map(|l| l.cost.clone()).sum()
    }
    pub fn gain(&self) -> Rat {
        self.net() - self.cost()
    }
}

#[derive(Clone, Debug)]
pub struct DayAgg {
    pub date: NaiveDate,
    pub b: Rat,
    pub cb: Rat,
    pub s: Rat,
    pub gross: Rat,
    pub fees: Rat,
    pub ratio: Rat,
    pub n_buy: usize,
    pub n_sell: usize,
    pub n_split: usize,
    /// net capital returns (total - fees) and accumulations (total) dated this day
    pub capret_net: Vec<Rat>,
    pub acc_total: Vec<Rat>,
    pub div_total: Rat,
    pub div_tax: Rat,
}

impl DayAgg {
    fn new(date: NaiveDate) -> DayAgg {
        DayAgg {
            date,
            b: Rat::zero(),
            cb: Rat::zero(),
            s: Rat::zero(),
            gross: Rat::zero(),
            fees: Rat::zero(),
            ratio: Rat::one(),
            n_buy: 0,
            n_sell: 0,
            n_split: 0,
            capret_net: vec![],
            acc_total: vec![],
            div_total: Rat::zero(),
            div_tax: Rat::zero(),
        }
    }
    pub fn has_trade(&self) -> bool {
        self.n_buy + self.n_sell > 0
    }
    pub fn has_event(&self) -> bool {
        !self.capret_net.is_empty() || !self.acc_total.is_empty()
    }
}

/// FX source for the model: units of foreign currency per 1 GBP for (code, year, month).
pub trait Fx {
    fn rate(&self, code: &str, year: i32, month: u32) -> Option<Rat>;
}

pub struct NoFx;
impl Fx for NoFx {
    fn rate(&self, _: &str, _: i32, _: u32) -> Option<Rat> {
        None
    }
}

#[derive(Clone, Debug, PartialEq, Eq)]
pub struct MissingRate {
    pub code: String,
    pub year: i32,
    pub month: u32,
}

pub fn to_gbp(m: &crate::led::Money, date: NaiveDate, fx: &dyn Fx) -> Result<Rat, MissingRate> {
    let a = Rat::from_dec(m.a);
    if m.is_gbp() {
        return Ok(a);
    }
    match fx.rate(&m.c.to_uppercase(), date.year(), date.month()) {
        Some(r) => Ok(a / r),
        None => Err(MissingRate { code: m.c.to_uppercase(), year: date.year(), month: date.month() }),
    }
}

/// Aggregate a ledger per (upper-cased) security and day. Returns every missing rate
/// that is genuinely needed (so an error naming any of them is acceptable).
pub fn aggregate(
    ledger: &[Tx],
    fx: &dyn Fx,
) -> Result<BTreeMap<String, Vec<DayAgg>>, Vec<MissingRate>> {
    let mut out: BTreeMap<String, BTreeMap<NaiveDate, DayAgg>> = BTreeMap::new();
    let mut missing = vec![];
    for t in ledger {
        let sec = out.entry(t.ticker.to_uppercase()).or_default();
        let day = sec.entry(t.date).or_insert_with(|| DayAgg::new(t.date));
        let mut conv = |m: &crate::led::Money| -> Rat {
            match to_gbp(m, t.date, fx) {
                Ok(v) => v,
                Err(e) => {
                    if !missing.contains(&e) {
                        missing.push(e);
                    }
                    Rat::zero()
                }
            }
        };
        match &t.op {
            Op::Buy { q, p, f } => {
                let q = Rat::from_dec(*q);
                day.cb += &q * conv(p) + conv(f);
                day.b += q;
                day.n_buy += 1;
            }
            Op::Sell { q, p, f } => {
                let q = Rat::from_dec(*q);
                day.gross += &q * conv(p);
                day.fees += conv(f);
                day.s += q;
                day.n_sell += 1;
            }
            Op::Split { r } => {
                day.ratio = &day.ratio * Rat::from_dec(*r);
                day.n_split += 1;
            }
            Op::Unsplit { r } => {
                day.ratio = &day.ratio / Rat::from_dec(*r);
                day.n_split += 1;
            }
            Op::CapRet { total, fees, .. } => {
                let v = conv(total) - conv(fees);
                day.capret_net.push(v);
            }
            Op::Acc { total, tax, .. } => {
                let _ = conv(tax);
                let v = conv(total);
                day.acc_total.push(v);
            }
            Op::Div { total, tax } => {
                day.div_total += conv(total);
                day.div_tax += conv(tax);
            }
        }
    }
    if !missing.is_empty() {
        return Err(missing);
    }
    Ok(out.into_iter().map(|(k, v)| (k, v.into_values().collect())).collect())
}

#[derive(Clone, Copy, Debug, Default, PartialEq, Eq)]
pub struct Quirks {
    /// F1: the per-date same-day reservation is drained by the first look-ahead that
    /// visits the acquisition day and is gone for later disposals.
    pub drain_reservation: bool,
    /// F2: holding check counts shares that an earlier disposal has already matched to
    /// a not-yet-happened repurchase (pool untouched by a 30-day match).
    pub lax_holding_check: bool,
}

#[derive(Clone, Debug, Default)]
pub struct SecTrace {
    /// number of (disposal, acquisition-day) look-ahead visits with r>0, per acquisition day index
    pub max_visits_to_day_with_own_sale: usize,
    pub bnb_legs: usize,
    pub bnb_across_split: usize,
    pub days_with_both: usize,
    pub competing_disposals: usize,
    pub partial_multi_rule: usize,
}

#[derive(Clone, Debug)]
pub struct SecResult {
    pub ticker: String,
    pub disposals: Vec<MDisposal>,
    pub closing_qty: Rat,
    /// closing pool cost ignoring CAPRETURN/ACCUMULATION
    pub closing_cost: Rat,
    /// (date, shortfall) for every day on which cumulative holdings go negative
    pub uncovered: Vec<(NaiveDate, Rat)>,
    /// true if under the chosen quirks the tool's own processing would stop with an error
    pub tool_would_reject: Option<NaiveDate>,
    pub has_events: bool,
    pub trace: SecTrace,
}

pub fn days_between(a: NaiveDate, b: NaiveDate) -> i64 {
    (b - a).num_days()
}

pub fn eval_security(ticker: &str, days: &[DayAgg], q: Quirks) -> SecResult {
    let n = days.len();
    let mut claimed: Vec<Rat> = vec![Rat::zero(); n];
    let mut res_rem: Vec<Option<Rat>> = vec![None; n];
    let mut visits: Vec<usize> = vec![0; n];
    let mut pool_q = Rat::zero();
    let mut pool_c = Rat::zero();
    let mut h = Rat::zero();
    let mut uncovered = vec![];
    let mut disposals = vec![];
    let mut tool_would_reject = None;
    let mut trace = SecTrace::default();
    let mut has_events = false;
    let mut dead = false; // after the first uncovered day no matching is attempted (strict)

    for i in 0..n {
        let d = &days[i];
        if d.has_event() {
            has_events = true;
        }
        h = &h + &d.b - &d.s;
        if h.is_neg() && d.s.is_pos() {
            uncovered.push((d.date, h.clone().abs()));
            if !q.lax_holding_check {
                dead = true;
            }
        }
        if d.b.is_pos() && d.s.is_pos() {
            trace.days_with_both += 1;
        }
        if !dead && tool_would_reject.is_none() && d.s.is_pos() {
            // tool's holding check: S <= (B - claimed) + pool
            let ledger_held = (&d.b - &claimed[i]).max(Rat::zero());
            if q.lax_holding_check && d.s > &ledger_held + &pool_q {
                tool_would_reject = Some(d.date);
            }
        }
        if !dead && tool_would_reject.is_none() {
            let mut legs: Vec<MLeg> = vec![];
            let mut r = d.s.clone();
            // same day
            if d.s.is_pos() && d.b.is_pos() {
                let avail = (&d.b - &claimed[i]).max(Rat::zero());
                let sd = r.clone().min(avail);
                if sd.is_pos() {
                    legs.push(MLeg {
                        rule: Rule::SameDay,
                        qty: sd.clone(),
                        acq: Some(d.date),
                        cost: &d.cb * &sd / &d.b,
                    });
                    r -= &sd;
                }
            }
            // 30 days
            if r.is_pos() {
                let mut f = d.ratio.clone();
                for j in (i + 1)..n {
                    let a = &days[j];
                    if days_between(d.date, a.date) > 30 {
                        break;
                    }
                    if !r.is_pos() {
                        break;
                    }
                    if a.b.is_pos() {
                        visits[j] += 1;
                        let avail = if q.drain_reservation {
                            let before = &a.b - &claimed[j];
                            if !before.is_pos() {
                                Rat::zero()
                            } else {
                                let rr = res_rem[j].get_or_insert_with(|| a.s.clone());
                                let now = before.clone().min(rr.clone().max(Rat::zero()));
                                *rr -= &now;
                                before - now
                            }
                        } else {
                            (&a.b - a.s.clone().min(a.b.clone()) - &claimed[j]).max(Rat::zero())
                        };
                        if avail.is_pos() {
                            let x = (&r * &f).min(avail);
                            let qleg = &x / &f;
                            legs.push(MLeg {
                                rule: Rule::Bnb,
                                qty: qleg.clone(),
                                acq: Some(a.date),
                                cost: &a.cb * &x / &a.b,
                            });
                            claimed[j] += &x;
                            r -= &qleg;
                            trace.bnb_legs += 1;
                            if f != Rat::one() {
                                trace.bnb_across_split += 1;
                            }
                        }
                    }
                    f = &f * &a.ratio;
                }
            }
            // pool
            if r.is_pos() {
                if pool_q < r {
                    // cannot happen when covered (see module doc); under quirks the tool errors
                    tool_would_reject = Some(d.date);
                } else {
                    let cost = &pool_c * &r / &pool_q;
                    pool_q -= &r;
                    pool_c -= &cost;
                    legs.push(MLeg { rule: Rule::S104, qty: r.clone(), acq: None, cost });
                }
            }
            if d.s.is_pos() && tool_would_reject.is_none() {
                let rules: std::collections::BTreeSet<Rule> = legs.iter().map(|l| l.rule).collect();
                if rules.len() >= 2 {
                    trace.partial_multi_rule += 1;
                }
                disposals.push(MDisposal {
                    date: d.date,
                    ticker: ticker.to_string(),
                    qty: d.s.clone(),
                    gross: d.gross.clone(),
                    fees: d.fees.clone(),
                    legs,
                });
            }
            // pool the rest of today's buys
            if d.b.is_pos() {
                let sd_used: Rat = disposals
                    .last()
                    .filter(|x| x.date == d.date)
                    .map(|x| {
                        x.legs.iter().filter(|l| l.rule == Rule::SameDay).map(|l| l.qty.clone()).sum()
                    })
                    .unwrap_or_else(Rat::zero);
                let rest = (&d.b - &sd_used - &claimed[i]).max(Rat::zero());
                if rest.is_pos() {
                    pool_c += &d.cb * &rest / &d.b;
                    pool_q += rest;
                }
            }
        }
        pool_q = &pool_q * &d.ratio;
        h = &h * &d.ratio;
    }
    for j in 0..n {
        if days[j].s.is_pos() && days[j].b.is_pos() {
            trace.max_visits_to_day_with_own_sale = trace.max_visits_to_day_with_own_sale.max(visits[j]);
        }
        if visits[j] >= 2 {
            trace.competing_disposals += 1;
        }
    }
    SecResult {
        ticker: ticker.to_string(),
        disposals,
        closing_qty: pool_q,
        closing_cost: pool_c,
        uncovered,
        tool_would_reject,
        has_events,
        trace,
    }
}

#[derive(Clone, Debug)]
pub struct ModelResult {
    pub secs: BTreeMap<String, SecResult>,
}

impl ModelResult {
    pub fn covered(&self) -> bool {
        self.secs.values().all(|s| s.uncovered.is_empty())
    }
    pub fn has_events(&self) -> bool {
        self.secs.values().any(|s| s.has_events)
    }
    pub fn all_disposals(&self) -> Vec<&MDisposal> {
        let mut v: Vec<&MDisposal> = self.secs.values().flat_map(|s| s.disposals.iter()).collect();
        v.sort_by(|a, b| a.date.cmp(&b.date).then(a.ticker.cmp(&b.ticker)));
        v
    }
}

pub fn evaluate(ledger: &[Tx], fx: &dyn Fx, q: Quirks) -> Result<ModelResult, Vec<MissingRate>> {
    let agg = aggregate(ledger, fx)?;
    let mut secs = BTreeMap::new();
    for (t, days) in &agg {
        secs.insert(t.clone(), eval_security(t, days, q));
    }
    Ok(ModelResult { secs })
}

/// UK tax year start for a date (6 April boundary), written independently of cgt-core.
pub fn tax_year_of(date: NaiveDate) -> i32 {
    let (y, m, d) = (date.year(), date.month(), date.day());
    if m > 4 || (m == 4 && d >= 6) { y } else { y - 1 }
}

#[cfg(test)]
mod tests {
    use super::*;
    use crate::led::{d, Tx};
    use rust_decimal::Decimal;
    fn dec(s: &str) -> Decimal {
        s.parse().unwrap()
    }
    fn r(s: &str) -> Rat {
        Rat::from_str_dec(s).unwrap()
    }

    /// HMRC CG51560 style example: same day, then 30 days, then pool.
    #[test]
    fn basic_three_rules() {
        let l = vec![
            Tx::buy(d(2020, 1, 1), "A", dec("100"), dec("10"), dec("0")),
            Tx::buy(d(2020, 6, 1), "A", dec("10"), dec("12"), dec("0")),
            Tx::sell(d(2020, 6, 1), "A", dec("50"), dec("15"), dec("5")),
            Tx::buy(d(2020, 6, 20), "A", dec("20"), dec("11"), dec("2")),
        ];
        let m = evaluate(&l, &NoFx, Quirks::default()).unwrap();
        let s = &m.secs["A"];
        assert!(s.uncovered.is_empty());
        let disp = &s.disposals[0];
        assert_eq!(disp.legs.len(), 3);
        assert_eq!(disp.legs[0].rule, Rule::SameDay);
        assert_eq!(disp.legs[0].qty, r("10"));
        assert_eq!(disp.legs[0].cost, r("120"));
        assert_eq!(disp.legs[1].rule, Rule::Bnb);
        assert_eq!(disp.legs[1].qty, r("20"));
        assert_eq!(disp.legs[1].cost, r("222"));
        assert_eq!(disp.legs[2].rule, Rule::S104);
        assert_eq!(disp.legs[2].qty, r("20"));
        assert_eq!(disp.legs[2].cost, r("200"));
        assert_eq!(s.closing_qty, r("80"));
        assert_eq!(s.closing_cost, r("800"));
    }

    #[test]
    fn window_edges() {
        for (off, expect_bnb) in [(30, true), (31, false)] {
            let sell = d(2021, 1, 31);
            let buy = sell + chrono::Duration::days(off);
            let l = vec![
                Tx::buy(d(2020, 1, 1), "A", dec("100"), dec("10"), dec("0")),
                Tx::sell(sell, "A", dec("10"), dec("15"), dec("0")),
                Tx::buy(buy, "A", dec("10"), dec("20"), dec("0")),
            ];
            let m = evaluate(&l, &NoFx, Quirks::default()).unwrap();
            let disp = &m.secs["A"].disposals[0];
            assert_eq!(disp.legs[0].rule == Rule::Bnb, expect_bnb, "offset {off}");
        }
    }

    #[test]
    fn f1_shape_strict_vs_quirk() {
        // BUY 1000; D1 SELL 100; D2 SELL 100; D3 BUY 100 + SELL 80
        let l = vec![
            Tx::buy(d(2020, 1, 1), "A", dec("1000"), dec("1"), dec("0")),
            Tx::sell(d(2020, 3, 1), "A", dec("100"), dec("2"), dec("0")),
            Tx::sell(d(2020, 3, 2), "A", dec("100"), dec("2"), dec("0")),
            Tx::buy(d(2020, 3, 3), "A", dec("100"), dec("3"), dec("0")),
            Tx::sell(d(2020, 3, 3), "A", dec("80"), dec("2"), dec("0")),
        ];
        let m = evaluate(&l, &NoFx, Quirks::default()).unwrap();
        let ds = &m.secs["A"].disposals;
        assert_eq!(ds[0].legs[0].rule, Rule::Bnb);
        assert_eq!(ds[0].legs[0].qty, r("20"));
        assert_eq!(ds[1].legs[0].rule, Rule::S104);
        assert_eq!(ds[2].legs[0].rule, Rule::SameDay);
        assert_eq!(ds[2].legs[0].qty, r("80"));
        let mq = evaluate(&l, &NoFx, Quirks { drain_reservation: true, ..Default::default() }).unwrap();
        let dq = &mq.secs["A"].disposals;
        assert_eq!(dq[1].legs[0].rule, Rule::Bnb);
        assert_eq!(dq[1].legs[0].qty, r("80"));
        assert_eq!(dq[2].legs[0].rule, Rule::S104);
    }

    #[test]
    fn split_between_sale_and_repurchase() {
        let l = vec![
            Tx::buy(d(2020, 1, 1), "A", dec("100"), dec("10"), dec("0")),
            Tx::sell(d(2020, 3, 1), "A", dec("10"), dec("20"), dec("0")),
            Tx { date: d(2020, 3, 5), ticker: "A".into(), op: crate::led::Op::Split { r: dec("2") } },
            Tx::buy(d(2020, 3, 10), "A", dec("10"), dec("6"), dec("0")),
        ];
        let m = evaluate(&l, &NoFx, Quirks::default()).unwrap();
        let s = &m.secs["A"];
        let leg = &s.disposals[0].legs[0];
        assert_eq!(leg.rule, Rule::Bnb);
        assert_eq!(leg.qty, r("5"));
        assert_eq!(leg.cost, r("60"));
        assert_eq!(s.disposals[0].legs[1].qty, r("5"));
        assert_eq!(s.closing_qty, r("190"));
    }

    #[test]
    fn uncovered_detected() {
        let l = vec![
            Tx::buy(d(2020, 1, 1), "A", dec("100"), dec("10"), dec("0")),
            Tx::sell(d(2020, 3, 1), "A", dec("100"), dec("20"), dec("0")),
            Tx::sell(d(2020, 3, 2), "A", dec("100"), dec("20"), dec("0")),
            Tx::buy(d(2020, 3, 10), "A", dec("100"), dec("6"), dec("0")),
        ];
        let m = evaluate(&l, &NoFx, Quirks::default()).unwrap();
        assert_eq!(m.secs["A"].uncovered.len(), 1);
        assert_eq!(m.secs["A"].uncovered[0].0, d(2020, 3, 2));
        let mq = evaluate(&l, &NoFx, Quirks { lax_holding_check: true, ..Default::default() }).unwrap();
        assert!(mq.secs["A"].tool_would_reject.is_none());
    }

    #[test]
    fn tax_year() {
        assert_eq!(tax_year_of(d(2024, 4, 5)), 2023);
        assert_eq!(tax_year_of(d(2024, 4, 6)), 2024);
        assert_eq!(tax_year_of(d(2024, 1, 1)), 2023);
        assert_eq!(tax_year_of(d(2024, 12, 31)), 2024);
    }
}
