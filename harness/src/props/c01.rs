//! C01 — Same Day, then 30-day, then Section 104: tool vs exact reference model.

use crate::lgen::{self, GenCfg, GenLedger, SplitMode};
use crate::led::{d, Tx};
use crate::model::{self, NoFx, Quirks, Rule};
use crate::props::PropDef;
use crate::runner::{replay_case, Ctx, Obs, Tier, Verdict};
use crate::tool::{self, Outcome};
use chrono::{Duration, NaiveDate};
use proptest::strategy::BoxedStrategy;
use rust_decimal::Decimal;
use serde::{Deserialize, Serialize};
use serde_json::Value;

pub fn def() -> PropDef {
    PropDef { id: "C01", run, replay, assumptions: &[] }
}

fn strat_single(t: Tier) -> BoxedStrategy<GenLedger> {
    lgen::ledger_strategy(GenCfg::basic().days(2, t.pick(14, 30)))
}
fn strat_multi(t: Tier) -> BoxedStrategy<GenLedger> {
    lgen::ledger_strategy(GenCfg::basic().secs(3).days(2, t.pick(14, 30)).dividends(true))
}
fn strat_split(t: Tier) -> BoxedStrategy<GenLedger> {
    lgen::ledger_strategy(GenCfg::basic().secs(2).days(2, t.pick(14, 30)).splits(SplitMode::Terminating))
}
fn strat_residue(t: Tier) -> BoxedStrategy<GenLedger> {
    lgen::ledger_strategy(GenCfg::basic().secs(2).days(2, t.pick(12, 24)).splits(SplitMode::Residue))
}
fn strat_events(t: Tier) -> BoxedStrategy<GenLedger> {
    lgen::ledger_strategy(
        GenCfg::basic().secs(2).days(2, t.pick(12, 24)).splits(SplitMode::Terminating).events(true).dividends(true),
    )
}
fn strat_shuffled(t: Tier) -> BoxedStrategy<GenLedger> {
    lgen::ledger_strategy(GenCfg::basic().secs(3).days(2, t.pick(12, 24)).splits(SplitMode::Terminating).shuffle(true))
}

pub const RULE: &str = "ledgers built day by day by the constructive generator (every sale covered); non-trivial = some disposal has a 30-day leg or legs of two different rules; distinct by hash of the DSL text";

pub fn classify(gl: &GenLedger, m: &model::ModelResult, obs: &mut Obs) {
    obs.hash = crate::led::hash_str(&crate::led::to_dsl(&gl.ledger));
    obs.excluded += gl.excluded;
    let mut bnb = 0;
    let mut multi = 0;
    let mut across = 0;
    let mut both = 0;
    let mut compete = 0;
    let mut f1shape = 0;
    let mut ndisp = 0;
    for s in m.secs.values() {
        bnb += s.trace.bnb_legs;
        multi += s.trace.partial_multi_rule;
        across += s.trace.bnb_across_split;
        both += s.trace.days_with_both;
        compete += s.trace.competing_disposals;
        if s.trace.max_visits_to_day_with_own_sale >= 2 {
            f1shape += 1;
        }
        ndisp += s.disposals.len();
    }
    obs.nontrivial = bnb > 0 || multi > 0;
    obs.class_if(bnb > 0, "has_30day_leg");
    obs.class_if(multi > 0, "disposal_with_2+_rules");
    obs.class_if(across > 0, "30day_across_split");
    obs.class_if(both > 0, "acquisition_day_with_own_sale");
    obs.class_if(compete > 0, "2+_disposals_compete_for_one_acquisition");
    obs.class_if(f1shape > 0, "F1_shape");
    obs.class_if(ndisp == 0, "no_disposal");
    obs.class_if(m.has_events(), "has_capreturn_or_accumulation");
    obs.class_if(lgen::has_nonadjacent_same_day_lots(&gl.ledger), "nonadjacent_same_day_lots");
    if obs.sample.is_none() {
        obs.sample = Some(tool::sample_of(&gl.ledger));
    }
}

pub fn check(gl: &GenLedger, obs: &mut Obs) -> Verdict {
    let ledger = &gl.ledger;
    if lgen::has_excluded_placement(ledger) {
        obs.excluded += 1;
        return Verdict::Pass;
    }
    let m = match model::evaluate(ledger, &NoFx, Quirks::default()) {
        Ok(m) => m,
        Err(e) => return Verdict::fail(format!("harness: model needs FX rates {e:?}")),
    };
    classify(gl, &m, obs);
    if !m.covered() {
        // outside C01's domain ("ledgers the tool accepts" must at least be covered); C05 owns it
        obs.class("uncovered_by_model");
        obs.nontrivial = false;
        return Verdict::Pass;
    }
    let report = match tool::calc(ledger) {
        Outcome::Ok(r) => r,
        Outcome::Err(_) => {
            // C01 quantifies over accepted ledgers; refusal of a covered ledger is C05's business
            obs.class("tool_rejected_covered_ledger");
            obs.nontrivial = false;
            return Verdict::Pass;
        }
        Outcome::Panic(p) => return Verdict::fail(format!("calculate panicked: {} at {}", p.msg, p.loc)),
    };
    let costs = !m.has_events();
    let strict = tool::compare_report_to_model(&report, &m, costs, obs);
    let Err(first) = strict else {
        return Verdict::Pass;
    };
    // Attribute the deviation to a listed finding only if switching on exactly that
    // behaviour in the model (or removing exactly that shape) makes the tool agree.
    let mut scratch = Obs::default();
    let mq = model::evaluate(ledger, &NoFx, Quirks { drain_reservation: true, ..Default::default() }).expect("model");
    if tool::compare_report_to_model(&report, &mq, costs, &mut scratch).is_ok() {
        return Verdict::Known {
            finding: "F1",
            what: "same-day reservation of an acquisition day is drained by the first 30-day look-ahead; a later disposal takes shares the day's own sale needs".into(),
        };
    }
    if lgen::has_nonadjacent_same_day_lots(ledger) {
        let canon = lgen::canonicalize(ledger);
        if let Outcome::Ok(rc) = tool::calc(&canon) {
            if tool::compare_report_to_model(&rc, &m, costs, &mut scratch).is_ok() {
                return Verdict::Known {
                    finding: "F4",
                    what: "same-day purchases of one security separated by other lines stay separate lots; 30-day cost depends on their order".into(),
                };
            }
            if tool::compare_report_to_model(&rc, &mq, costs, &mut scratch).is_ok() {
                return Verdict::Known {
                    finding: "F1",
                    what: "same-day reservation drained by first look-ahead (with non-adjacent lots)".into(),
                };
            }
        }
    }
    Verdict::fail(format!("tool deviates from s105/s106A/s104 model: {first}\nledger:\n{}", crate::led::to_dsl(ledger)))
}

// ---------- exhaustive window sweep ----------

#[derive(Clone, Debug, Serialize, Deserialize)]
pub struct SweepCase {
    pub sale: NaiveDate,
    pub offset: i64,
    pub split_between: bool,
}

fn sweep_cases(t: Tier) -> Vec<SweepCase> {
    let mut v = vec![];
    let years: Vec<i32> = t.pick(vec![1904, 1999, 2000, 2023, 2024, 2096], (1901..=2099).step_by(7).collect());
    for y in years {
        let anchors = [
            NaiveDate::from_ymd_opt(y, 1, 29),
            NaiveDate::from_ymd_opt(y, 1, 30),
            NaiveDate::from_ymd_opt(y, 1, 31),
            NaiveDate::from_ymd_opt(y, 2, 28),
            NaiveDate::from_ymd_opt(y, 2, 29),
            NaiveDate::from_ymd_opt(y, 3, 5),
            NaiveDate::from_ymd_opt(y, 3, 6),
            NaiveDate::from_ymd_opt(y, 3, 7),
            NaiveDate::from_ymd_opt(y, 4, 5),
            NaiveDate::from_ymd_opt(y, 4, 6),
            NaiveDate::from_ymd_opt(y, 12, 1),
            NaiveDate::from_ymd_opt(y, 12, 2),
            NaiveDate::from_ymd_opt(y, 12, 31),
            NaiveDate::from_ymd_opt(y, 6, 30),
            NaiveDate::from_ymd_opt(y, 8, 31),
        ];
        for a in anchors.into_iter().flatten() {
            for offset in -2..=33 {
                v.push(SweepCase { sale: a, offset, split_between: false });
                if offset >= 2 {
                    v.push(SweepCase { sale: a, offset, split_between: true });
                }
            }
        }
    }
    v
}

fn dec(s: &str) -> Decimal {
    s.parse().expect("lit")
}

pub fn sweep_ledger(c: &SweepCase) -> Vec<Tx> {
    let first = c.sale - Duration::days(100);
    let mut l = vec![Tx::buy(first, "SWP", dec("100"), dec("10"), dec("1"))];
    let other = c.sale + Duration::days(c.offset);
    let mut rest = vec![Tx::sell(c.sale, "SWP", dec("10"), dec("15"), dec("2"))];
    if c.split_between {
        rest.push(Tx { date: c.sale + Duration::days(1), ticker: "SWP".into(), op: crate::led::Op::Split { r: dec("2") } });
    }
    rest.push(Tx::buy(other, "SWP", dec("4"), dec("20"), dec("3")));
    l.extend(rest);
    l
}

pub fn check_sweep(c: &SweepCase, obs: &mut Obs) -> Verdict {
    let ledger = sweep_ledger(c);
    obs.hash = crate::led::hash_str(&format!("{c:?}"));
    obs.nontrivial = (28..=32).contains(&c.offset) || c.offset <= 1 || c.split_between;
    obs.class(&format!("offset_{}", c.offset));
    obs.class_if(c.split_between, "split_between");
    if obs.sample.is_none() && c.offset == 30 {
        obs.sample = Some(tool::sample_of(&ledger));
    }
    let report = match tool::calc(&ledger) {
        Outcome::Ok(r) => r,
        o => return Verdict::fail(format!("sweep ledger refused: {}\n{}", o.describe(), crate::led::to_dsl(&ledger))),
    };
    let disp = tool::all_disposals(&report);
    if disp.len() != 1 {
        vfail!("expected one disposal, got {}", disp.len());
    }
    let legs = tool::group_tool_legs(disp[0]);
    // expectation written by hand from the statute, independent of the model
    let other = c.sale + Duration::days(c.offset);
    let expect: Vec<(Rule, Option<NaiveDate>, &str)> = if c.offset == 0 {
        vec![(Rule::SameDay, Some(c.sale), "4"), (Rule::S104, None, "6")]
    } else if (1..=30).contains(&c.offset) {
        if c.split_between {
            // 4 post-split shares = 2 pre-split shares
            vec![(Rule::Bnb, Some(other), "2"), (Rule::S104, None, "8")]
        } else {
            vec![(Rule::Bnb, Some(other), "4"), (Rule::S104, None, "6")]
        }
    } else {
        vec![(Rule::S104, None, "10")]
    };
    let got: Vec<(Rule, Option<NaiveDate>, String)> =
        legs.iter().map(|(k, v)| (k.0, k.1, v.0.to_string())).collect();
    let want: Vec<(Rule, Option<NaiveDate>, String)> = {
        let mut w: Vec<_> = expect.iter().map(|(r, d, q)| (*r, *d, q.to_string())).collect();
        w.sort();
        w
    };
    if got != want {
        vfail!("window sweep sale {} offset {} split {}: legs {:?}, expected {:?}", c.sale, c.offset, c.split_between, got, want);
    }
    // and the model must agree with the hand expectation too (guards the model itself)
    let m = model::evaluate(&ledger, &NoFx, Quirks::default()).expect("model");
    if let Err(e) = tool::compare_report_to_model(&report, &m, true, obs) {
        vfail!("window sweep: {e}");
    }
    Verdict::Pass
}

fn run(ctx: &Ctx) {
    let _ = d;
    let sweep = sweep_cases(ctx.tier);
    if !ctx.run_enum("window_sweep", "exhaustive: sale on each anchor date (month ends, leap day, 5/6 April, year end) x repurchase offset -2..+33 days x with/without a split in between; non-trivial = offset at a window edge or with split", sweep, check_sweep) {
        return;
    }
    let n = |q, t| ctx.cases(q, t);
    if !ctx.run_prop("single_security", RULE, n(1500, 160_000), strat_single, check) {
        return;
    }
    if !ctx.run_prop("multi_security", RULE, n(1000, 120_000), strat_multi, check) {
        return;
    }
    if !ctx.run_prop("terminating_splits", RULE, n(1000, 160_000), strat_split, check) {
        return;
    }
    if !ctx.run_prop("residue_splits", RULE, n(400, 60_000), strat_residue, check) {
        return;
    }
    if !ctx.run_prop("with_asset_events", RULE, n(500, 60_000), strat_events, check) {
        return;
    }
    if !ctx.run_prop("shuffled_lines", RULE, n(600, 80_000), strat_shuffled, check) {
        return;
    }
    if ctx.tier == Tier::Thorough {
        ctx.run_fuzz("libfuzzer_ledger", "ledger", (60_000.0 * ctx.scale) as u64, 1200, "coverage-guided libFuzzer campaign: bytes decoded into a ledger recipe (structure-aware), the proptest oracles of C01/C02/C03/C05 inside the target; evaluations = executions, distinct_nontrivial = distinct corpus entries (inputs that reached new coverage)");
    }
}

fn replay(check_name: &str, case: &Value) -> Option<Verdict> {
    match check_name {
        "window_sweep" => Some(replay_case::<SweepCase, _>(case, check_sweep).unwrap_or_else(Verdict::Fail)),
        "single_security" | "multi_security" | "terminating_splits" | "residue_splits" | "with_asset_events"
        | "shuffled_lines" => Some(replay_case::<GenLedger, _>(case, check).unwrap_or_else(Verdict::Fail)),
        _ => None,
    }
}
