//! C13 — lexical layout never changes what is parsed; corrupt text is rejected with the line.

use crate::led::{Money, Op, Tx};
use crate::props::PropDef;
use crate::runner::{replay_case, Ctx, Obs, Tier, Verdict};
use crate::tool;
use cgt_core::parser::parse_file;
use chrono::NaiveDate;
use proptest::prelude::*;
use rust_decimal::Decimal;
use serde::{Deserialize, Serialize};
use serde_json::Value;

pub fn def() -> PropDef {
    PropDef {
        id: "C13",
        run,
        replay,
        assumptions: &[
            "lexical variants are those the statement lists; tokens stay separated by at least one blank except around '@'",
            "corrupted files use LF/CRLF line ends so that 'the offending line' has one meaning",
        ],
    }
}

// ---------- transaction lists ----------

pub fn arb_money() -> impl Strategy<Value = Money> {
    (arb_amount(), prop_oneof![6 => Just("GBP"), 2 => Just("USD"), 1 => Just("EUR"), 1 => Just("JPY")]).prop_map(|(a, c)| Money { a, c: c.to_string() })
}
pub fn arb_amount() -> impl Strategy<Value = Decimal> {
    prop_oneof![
        4 => (0i64..100_000, 0u32..3).prop_map(|(m, s)| Decimal::new(m, s)),
        2 => (0i64..10_000_000, 0u32..7).prop_map(|(m, s)| Decimal::new(m, s)),
        1 => Just(Decimal::ZERO),
        1 => (1i64..1000).prop_map(Decimal::from),
    ]
}
pub fn arb_qty() -> impl Strategy<Value = Decimal> {
    prop_oneof![
        4 => (1i64..5000).prop_map(Decimal::from),
        2 => (1i64..10_000_000, 1u32..7).prop_map(|(m, s)| Decimal::new(m, s)),
    ]
}
pub fn arb_ticker() -> impl Strategy<Value = String> {
    prop_oneof![
        6 => "[A-Z][A-Z0-9]{0,5}",
        1 => "[0-9][A-Z0-9]{0,4}",
        1 => Just("BUY".to_string()),
        1 => Just("TOTAL".to_string()),
        1 => Just("USD".to_string()),
        1 => Just("FEES".to_string()),
    ]
}
pub fn arb_date() -> impl Strategy<Value = NaiveDate> {
    (1900i32..2101, 1u32..13, 1u32..32).prop_filter_map("valid date", |(y, m, d)| NaiveDate::from_ymd_opt(y, m, d))
}
pub fn arb_tx() -> impl Strategy<Value = Tx> {
    let op = prop_oneof![
        3 => (arb_qty(), arb_money(), arb_money()).prop_map(|(q, p, f)| Op::Buy { q, p, f }),
        3 => (arb_qty(), arb_money(), arb_money()).prop_map(|(q, p, f)| Op::Sell { q, p, f }),
        1 => (arb_money(), arb_money()).prop_map(|(total, tax)| Op::Div { total, tax }),
        1 => (arb_qty(), arb_money(), arb_money()).prop_map(|(q, total, tax)| Op::Acc { q, total, tax }),
        1 => (arb_qty(), arb_money(), arb_money()).prop_map(|(q, total, fees)| Op::CapRet { q, total, fees }),
        1 => arb_qty().prop_map(|r| Op::Split { r }),
        1 => arb_qty().prop_map(|r| Op::Unsplit { r }),
    ];
    (arb_date(), arb_ticker(), op).prop_map(|(date, ticker, op)| Tx { date, ticker, op })
}

// ---------- lexical rendering ----------

#[derive(Clone, Debug, Serialize, Deserialize)]
pub struct Case {
    pub txs: Vec<Tx>,
    pub choices: Vec<u16>,
}

struct Chooser<'a> {
    c: &'a [u16],
    i: usize,
}
impl<'a> Chooser<'a> {
    fn next(&mut self) -> u16 {
        if self.c.is_empty() {
            return 0;
        }
        let v = self.c[self.i % self.c.len()].wrapping_add(((self.i / self.c.len()) as u16).wrapping_mul(40503));
        self.i += 1;
        v
    }
    fn pick(&mut self, n: usize) -> usize {
        (self.next() as usize) % n.max(1)
    }
    fn chance(&mut self, pct: u16) -> bool {
        self.next() % 100 < pct
    }
}

#[derive(Default, Debug, Clone)]
pub struct LexStats {
    pub kinds: std::collections::BTreeSet<&'static str>,
}

fn recase(s: &str, ch: &mut Chooser, st: &mut LexStats, label: &'static str) -> String {
    match ch.pick(4) {
        0 => s.to_uppercase(),
        1 => {
            st.kinds.insert(label);
            s.to_lowercase()
        }
        2 => {
            st.kinds.insert(label);
            s.chars().enumerate().map(|(i, c)| if i % 2 == 0 { c.to_ascii_lowercase() } else { c.to_ascii_uppercase() }).collect()
        }
        _ => s.to_uppercase(),
    }
}

fn ws(ch: &mut Chooser, st: &mut LexStats) -> String {
    match ch.pick(6) {
        0 | 1 | 2 => " ".into(),
        3 => {
            st.kinds.insert("tabs_or_extra_spaces");
            "\t".into()
        }
        4 => {
            st.kinds.insert("tabs_or_extra_spaces");
            "   ".into()
        }
        _ => {
            st.kinds.insert("tabs_or_extra_spaces");
            " \t ".into()
        }
    }
}

fn money_tokens(m: &Money, ch: &mut Chooser, st: &mut LexStats) -> Vec<String> {
    let mut v = vec![m.a.to_string()];
    if m.is_gbp() {
        if ch.chance(50) {
            st.kinds.insert("gbp_omitted");
        } else {
            v.push(recase("GBP", ch, st, "currency_case"));
        }
    } else {
        v.push(recase(&m.c, ch, st, "currency_case"));
    }
    v
}

fn opt_clause(kw: &str, m: &Money, ch: &mut Chooser, st: &mut LexStats) -> Vec<String> {
    if m.a.is_zero() {
        if ch.chance(60) {
            st.kinds.insert("zero_clause_omitted");
            return vec![];
        }
        st.kinds.insert("zero_clause_written");
    }
    let mut v = vec![recase(kw, ch, st, "keyword_case")];
    v.extend(money_tokens(m, ch, st));
    v
}

/// tokens of one transaction; `at_idx` is the index of the '@' token if any
fn tx_tokens(t: &Tx, ch: &mut Chooser, st: &mut LexStats) -> (Vec<String>, Option<usize>) {
    let mut v = vec![t.date.format("%Y-%m-%d").to_string()];
    let mut at = None;
    let kw = |s: &str, ch: &mut Chooser, st: &mut LexStats| recase(s, ch, st, "keyword_case");
    let tick = |ch: &mut Chooser, st: &mut LexStats| recase(&t.ticker, ch, st, "ticker_case");
    match &t.op {
        Op::Buy { q, p, f } | Op::Sell { q, p, f } => {
            v.push(kw(if matches!(t.op, Op::Buy { .. }) { "BUY" } else { "SELL" }, ch, st));
            v.push(tick(ch, st));
            v.push(q.to_string());
            at = Some(v.len());
            v.push("@".into());
            v.extend(money_tokens(p, ch, st));
            v.extend(opt_clause("FEES", f, ch, st));
        }
        Op::Div { total, tax } => {
            v.push(kw("DIVIDEND", ch, st));
            v.push(tick(ch, st));
            v.push(kw("TOTAL", ch, st));
            v.extend(money_tokens(total, ch, st));
            v.extend(opt_clause("TAX", tax, ch, st));
        }
        Op::Acc { q, total, tax } => {
            v.push(kw("ACCUMULATION", ch, st));
            v.push(tick(ch, st));
            v.push(q.to_string());
            v.push(kw("TOTAL", ch, st));
            v.extend(money_tokens(total, ch, st));
            v.extend(opt_clause("TAX", tax, ch, st));
        }
        Op::CapRet { q, total, fees } => {
            v.push(kw("CAPRETURN", ch, st));
            v.push(tick(ch, st));
            v.push(q.to_string());
            v.push(kw("TOTAL", ch, st));
            v.extend(money_tokens(total, ch, st));
            v.extend(opt_clause("FEES", fees, ch, st));
        }
        Op::Split { r } | Op::Unsplit { r } => {
            v.push(kw(if matches!(t.op, Op::Split { .. }) { "SPLIT" } else { "UNSPLIT" }, ch, st));
            v.push(tick(ch, st));
            v.push(kw("RATIO", ch, st));
            v.push(r.to_string());
        }
    }
    (v, at)
}

const COMMENTS: [&str; 8] = [
    "# note",
    "#",
    "# 2024-01-01 BUY XYZ 1 @ 1",
    "#no space",
    "# \u{00a3}100 caf\u{00e9} \u{4e2d}",
    "# # nested # hashes",
    "#\ttab\tseparated",
    "# FEES 10 USD TOTAL RATIO",
];

fn join_tokens(tokens: &[String], at: Option<usize>, ch: &mut Chooser, st: &mut LexStats) -> String {
    let mut s = String::new();
    for (i, tok) in tokens.iter().enumerate() {
        if i > 0 {
            let around_at = at.map(|a| i == a || i == a + 1).unwrap_or(false);
            // ("10@150" without spaces is accepted today but is not among the variations the
            // statement lists; the draw is kept so that archived cases keep their meaning)
            if around_at {
                let _ = ch.chance(30);
            }
            s.push_str(&ws(ch, st));
        }
        s.push_str(tok);
    }
    s
}

pub fn render(c: &Case, allow_cr: bool) -> (String, LexStats, Vec<usize>) {
    // returns text, stats, and for each transaction its 1-based line number (LF/CRLF counting)
    let mut ch = Chooser { c: &c.choices, i: 0 };
    let mut st = LexStats::default();
    let mut lines: Vec<String> = vec![];
    let mut tx_line = vec![];
    for t in &c.txs {
        while ch.chance(20) {
            if ch.chance(50) {
                st.kinds.insert("blank_line");
                lines.push(if ch.chance(30) { "  \t".into() } else { String::new() });
            } else {
                st.kinds.insert("comment_line");
                lines.push(COMMENTS[ch.pick(COMMENTS.len())].to_string());
            }
        }
        let (tokens, at) = tx_tokens(t, &mut ch, &mut st);
        let mut line = join_tokens(&tokens, at, &mut ch, &mut st);
        if ch.chance(30) {
            st.kinds.insert("trailing_comment");
            line.push_str(&ws(&mut ch, &mut st));
            line.push_str(COMMENTS[ch.pick(COMMENTS.len())]);
        } else {
            // (white space at the end of a line is not among the listed variations either)
            let _ = ch.chance(20);
        }
        tx_line.push(lines.len() + 1);
        lines.push(line);
    }
    if ch.chance(30) {
        st.kinds.insert("comment_line");
        lines.push(COMMENTS[ch.pick(COMMENTS.len())].to_string());
    }
    let mode = ch.pick(if allow_cr { 5 } else { 3 });
    let mut text = String::new();
    let n = lines.len();
    for (i, l) in lines.iter().enumerate() {
        text.push_str(l);
        let last = i + 1 == n;
        if last && ch.chance(50) {
            st.kinds.insert("no_final_newline");
            break;
        }
        let nl = match mode {
            0 => "\n",
            1 => {
                st.kinds.insert("crlf");
                "\r\n"
            }
            2 => {
                if ch.chance(50) {
                    st.kinds.insert("crlf");
                    "\r\n"
                } else {
                    "\n"
                }
            }
            3 => {
                st.kinds.insert("cr_only");
                "\r"
            }
            _ => match ch.pick(3) {
                0 => "\n",
                1 => {
                    st.kinds.insert("crlf");
                    "\r\n"
                }
                _ => {
                    st.kinds.insert("cr_only");
                    "\r"
                }
            },
        };
        text.push_str(nl);
    }
    (text, st, tx_line)
}

/// what the parser must return for the list: tickers upper-cased, currencies as given
fn expected(txs: &[Tx]) -> Vec<cgt_core::Transaction> {
    crate::led::to_core(&txs.iter().map(|t| Tx { date: t.date, ticker: t.ticker.to_uppercase(), op: t.op.clone() }).collect::<Vec<_>>())
}

fn same_tx(a: &cgt_core::Transaction, b: &cgt_core::Transaction) -> bool {
    // a zero fee/tax carries no currency information when omitted: compare through the harness type,
    // normalising the currency label of zero optional amounts
    let norm = |t: &cgt_core::Transaction| {
        let mut x = crate::led::from_core_tx(t);
        match &mut x.op {
            Op::Buy { f, .. } | Op::Sell { f, .. } | Op::CapRet { fees: f, .. } => {
                if f.a.is_zero() {
                    f.c = "GBP".into();
                }
            }
            Op::Div { tax, .. } | Op::Acc { tax, .. } => {
                if tax.a.is_zero() {
                    tax.c = "GBP".into();
                }
            }
            _ => {}
        }
        x
    };
    norm(a) == norm(b)
}

const RULE_LEX: &str = "valid transaction lists (all seven kinds, keyword-like tickers) rendered with random combinations of blank/comment lines, trailing comments, tabs/extra spaces, keyword/currency/ticker case, GBP omitted, zero FEES/TAX omitted or written, LF/CRLF/CR/mixed endings, missing final newline; non-trivial = >=3 distinct variation kinds, or a trailing comment, or a non-LF ending; distinct by text hash";

pub fn check_lex(c: &Case, obs: &mut Obs) -> Verdict {
    let (text, st, _) = render(c, true);
    obs.hash = crate::led::hash_str(&text);
    for k in &st.kinds {
        obs.class(k);
    }
    obs.nontrivial = st.kinds.len() >= 3 || st.kinds.contains("trailing_comment") || st.kinds.contains("crlf") || st.kinds.contains("cr_only");
    if obs.sample.is_none() && st.kinds.len() >= 4 {
        obs.sample = Some(Value::String(text.clone()));
    }
    let want = expected(&c.txs);
    let got = match tool::guarded(|| parse_file(&text)) {
        Ok(Ok(g)) => g,
        Ok(Err(e)) => {
            // F6: trailing comment after a transaction that does not end in RATIO n
            return Verdict::fail(format!("valid text rejected: {e}\n--- text ---\n{text:?}"));
        }
        Err(p) => return Verdict::fail(format!("parser panicked: {} at {}", p.msg, p.loc)),
    };
    if got.len() != want.len() {
        return Verdict::fail(format!("{} transactions parsed, {} written\n{text:?}", got.len(), want.len()));
    }
    for (g, w) in got.iter().zip(want.iter()) {
        if !same_tx(g, w) {
            return Verdict::fail(format!("parsed {g:?}\nexpected {w:?}\n--- text ---\n{text:?}"));
        }
    }
    Verdict::Pass
}

// ---------- corruptions ----------

#[derive(Clone, Debug, Serialize, Deserialize)]
pub struct Corrupt {
    pub base: Case,
    pub which: u16,
    pub kind: u8,
}

const RULE_CORRUPT: &str = "a valid file in which one token of one transaction line is replaced so that the line is invalid under the documented grammar (misspelt keyword, month 13, day 32, 30 Feb, '1.2.3', '-5', missing '@', missing ticker, non-ISO currency QQQ, 2-/4-letter currency, TOTAL missing, RATIO missing); non-trivial = corrupted line is not the first line; distinct by text hash";

fn corrupt_line(t: &Tx, kind: u8) -> Option<String> {
    let date = t.date.format("%Y-%m-%d").to_string();
    let tk = &t.ticker;
    let is_trade = matches!(t.op, Op::Buy { .. } | Op::Sell { .. });
    let canon = crate::led::tx_to_dsl(t);
    Some(match kind % 14 {
        0 => canon.replacen(&date, &format!("{}-13-01", &date[..4]), 1),
        1 => canon.replacen(&date, &format!("{}-01-32", &date[..4]), 1),
        2 => canon.replacen(&date, &format!("{}-02-30", &date[..4]), 1),
        3 => {
            // misspelt keyword
            let kw = canon.split(' ').nth(1)?;
            let bad = match kw {
                "BUY" => "BUX",
                "SELL" => "SEL",
                "DIVIDEND" => "DIVIDENT",
                "ACCUMULATION" => "ACCUMULATE",
                "CAPRETURN" => "CAPRETRUN",
                "SPLIT" => "SPLYT",
                _ => "UNSPLYT",
            };
            canon.replacen(&format!(" {kw} "), &format!(" {bad} "), 1)
        }
        4 if is_trade => canon.replacen(" @ ", " ", 1),
        5 if is_trade => {
            // quantity 1.2.3
            let q = canon.split(' ').nth(3)?;
            canon.replacen(&format!(" {q} @"), " 1.2.3 @", 1)
        }
        6 if is_trade => {
            let q = canon.split(' ').nth(3)?;
            canon.replacen(&format!(" {q} @"), " -5 @", 1)
        }
        7 if is_trade => canon.replacen(&format!(" {tk} "), " ", 1), // missing ticker
        8 => {
            // non-ISO currency on the first amount
            let m = t.monies().first().map(|m| (*m).clone())?;
            let needle = format!(" {} {}", m.a, m.c.to_uppercase());
            let pos = canon.rfind(&needle).filter(|_| t.monies().len() == 1).or_else(|| canon.find(&format!("@{needle}")).map(|p| p + 1)).or_else(|| canon.find(&format!("TOTAL{needle}")).map(|p| p + 5))?;
            format!("{} {} QQQ{}", &canon[..pos], m.a, &canon[pos + needle.len()..])
        }
        9 => {
            let m = t.monies().first().map(|m| (*m).clone())?;
            let needle = format!(" {} {}", m.a, m.c.to_uppercase());
            let pos = canon.rfind(&needle).filter(|_| t.monies().len() == 1).or_else(|| canon.find(&format!("@{needle}")).map(|p| p + 1)).or_else(|| canon.find(&format!("TOTAL{needle}")).map(|p| p + 5))?;
            format!("{} {} GB{}", &canon[..pos], m.a, &canon[pos + needle.len()..])
        }
        10 => {
            let m = t.monies().first().map(|m| (*m).clone())?;
            let needle = format!(" {} {}", m.a, m.c.to_uppercase());
            let pos = canon.rfind(&needle).filter(|_| t.monies().len() == 1).or_else(|| canon.find(&format!("@{needle}")).map(|p| p + 1)).or_else(|| canon.find(&format!("TOTAL{needle}")).map(|p| p + 5))?;
            format!("{} {} GBPX{}", &canon[..pos], m.a, &canon[pos + needle.len()..])
        }
        11 => {
            if canon.contains(" TOTAL ") {
                canon.replacen(" TOTAL ", " ", 1)
            } else if canon.contains(" RATIO ") {
                canon.replacen(" RATIO ", " ", 1)
            } else {
                return None;
            }
        }
        12 => canon.replacen(&date, &date.replace('-', "/"), 1),
        13 => format!("{canon} EXTRA"),
        _ => return None,
    })
}

pub fn check_corrupt(c: &Corrupt, obs: &mut Obs) -> Verdict {
    if c.base.txs.is_empty() {
        return Verdict::Pass;
    }
    let idx = (c.which as usize * c.base.txs.len()) >> 16;
    let Some(bad) = corrupt_line(&c.base.txs[idx], c.kind) else {
        obs.excluded += 1;
        return Verdict::Pass;
    };
    if bad == crate::led::tx_to_dsl(&c.base.txs[idx]) {
        obs.excluded += 1;
        return Verdict::Pass;
    }
    // render canonically with comments/blank lines between, LF or CRLF
    let mut ch = Chooser { c: &c.base.choices, i: 0 };
    let crlf = ch.chance(40);
    // (decided after the other choices so that earlier regression cases keep their meaning)
    let mut lines: Vec<String> = vec![];
    let mut bad_line = 0;
    for (i, t) in c.base.txs.iter().enumerate() {
        while ch.chance(25) {
            lines.push(if ch.chance(50) { String::new() } else { COMMENTS[ch.pick(COMMENTS.len())].to_string() });
        }
        if i == idx {
            bad_line = lines.len() + 1;
            lines.push(bad.clone());
        } else {
            lines.push(crate::led::tx_to_dsl(t));
        }
    }
    let final_nl = ch.chance(60);
    // one case in five uses CR-only line ends, which the statement lists among the endings
    let cr_only = !crlf && ch.chance(25);
    let nl = if crlf { "\r\n" } else if cr_only { "\r" } else { "\n" };
    let mut text = lines.join(nl);
    if final_nl {
        text.push_str(nl);
    }
    obs.hash = crate::led::hash_str(&text);
    obs.nontrivial = bad_line > 1;
    obs.class(&format!("corruption_{}", c.kind % 14));
    obs.class_if(crlf, "crlf");
    obs.class_if(cr_only, "cr_only");
    if obs.sample.is_none() {
        obs.sample = Some(serde_json::json!({"corrupted_line": bad_line, "text": text}));
    }
    match tool::guarded(|| parse_file(&text)) {
        Err(p) => Verdict::fail(format!("parser panicked: {} at {}", p.msg, p.loc)),
        Ok(Ok(v)) => Verdict::fail(format!("corrupted line {bad_line} ('{bad}') accepted; {} transactions returned\n{text:?}", v.len())),
        Ok(Err(e)) => {
            let msg = e.to_string();
            // pest renders the position as " --> line:col"
            let line = msg.split("-->").nth(1).and_then(|r| r.trim().split(':').next().map(|s| s.trim().to_string())).and_then(|s| s.parse::<usize>().ok());
            match line {
                Some(l) if l == bad_line => Verdict::Pass,
                Some(l) => Verdict::fail(format!("error points at line {l}, the corrupted line is {bad_line} ('{bad}')\n{msg}\n{text:?}")),
                None => Verdict::fail(format!("error does not identify a line: {msg}")),
            }
        }
    }
}

// ---------- whatever parses must be complete and re-serialisable ----------

#[derive(Clone, Debug, Serialize, Deserialize)]
pub struct Mutated {
    pub base: Case,
    pub edits: Vec<(u16, u8, u8)>,
}

const EDIT_BYTES: &[u8] = b" \t\n\r#@.0159-ABFGPSTUXabcdxyz";
const RULE_MUT: &str = "valid rendered text with 1-4 random byte edits (insert/delete/replace from a small alphabet incl. '#', '@', CR, LF); oracle: whatever still parses has as many transactions as non-blank non-comment lines, and re-serialises to text that parses to the same list; non-trivial = the edited text still parses; distinct by text hash";

fn logical_lines(text: &str) -> usize {
    let norm = text.replace("\r\n", "\n").replace('\r', "\n");
    norm.split('\n').filter(|l| {
        let t = l.trim_matches(|c| c == ' ' || c == '\t');
        !t.is_empty() && !t.starts_with('#')
    }).count()
}

pub fn check_mutated(c: &Mutated, obs: &mut Obs) -> Verdict {
    let (text, _, _) = render(&c.base, true);
    let mut bytes = text.into_bytes();
    for (pos, op, b) in &c.edits {
        if bytes.is_empty() {
            break;
        }
        let p = (*pos as usize * bytes.len()) >> 16;
        let byte = EDIT_BYTES[*b as usize % EDIT_BYTES.len()];
        match op % 3 {
            0 => bytes.insert(p, byte),
            1 => {
                bytes.remove(p);
            }
            _ => bytes[p] = byte,
        }
    }
    let Ok(text) = String::from_utf8(bytes) else {
        obs.excluded += 1;
        return Verdict::Pass;
    };
    check_text_oracle(&text, obs)
}

/// The in-target oracle shared with the fuzz target: Ok or clean Err; if Ok, nothing skipped and
/// the DSL writer round-trips.
pub fn check_text_oracle(text: &str, obs: &mut Obs) -> Verdict {
    obs.hash = crate::led::hash_str(text);
    match tool::guarded(|| parse_file(text)) {
        Err(p) => Verdict::fail(format!("parser panicked: {} at {}\n{text:?}", p.msg, p.loc)),
        Ok(Err(e)) => {
            obs.class("rejected");
            if e.to_string().is_empty() {
                return Verdict::fail("empty error message".to_string());
            }
            Verdict::Pass
        }
        Ok(Ok(txs)) => {
            obs.class("parsed");
            obs.nontrivial = true;
            if obs.sample.is_none() {
                obs.sample = Some(Value::String(text.to_string()));
            }
            let n = logical_lines(text);
            if txs.len() != n {
                return Verdict::fail(format!("{} transactions parsed from a text with {n} non-blank non-comment lines (something skipped or invented)\n{text:?}", txs.len()));
            }
            let back = cgt_core::dsl::transactions_to_dsl(&txs);
            match tool::guarded(|| parse_file(&back)) {
                Ok(Ok(again)) => {
                    if again.len() != txs.len() || !again.iter().zip(txs.iter()).all(|(a, b)| same_tx(a, b)) {
                        return Verdict::fail(format!("re-serialised text parses to a different list\n{text:?}\n{back:?}"));
                    }
                    Verdict::Pass
                }
                Ok(Err(e)) => Verdict::fail(format!("writer output does not parse: {e}\n{back:?}")),
                Err(p) => Verdict::fail(format!("parser panicked on writer output: {}", p.msg)),
            }
        }
    }
}

fn strat_case(t: Tier) -> BoxedStrategy<Case> {
    (proptest::collection::vec(arb_tx(), 1..t.pick(8, 16)), proptest::collection::vec(any::<u16>(), 40)).prop_map(|(txs, choices)| Case { txs, choices }).boxed()
}
fn strat_corrupt(t: Tier) -> BoxedStrategy<Corrupt> {
    (strat_case(t), any::<u16>(), 0u8..14).prop_map(|(base, which, kind)| Corrupt { base, which, kind }).boxed()
}
fn strat_mutated(t: Tier) -> BoxedStrategy<Mutated> {
    (strat_case(t), proptest::collection::vec((any::<u16>(), 0u8..3, any::<u8>()), 1..5)).prop_map(|(base, edits)| Mutated { base, edits }).boxed()
}

fn run(ctx: &Ctx) {
    if !ctx.run_prop("lexical_variants", RULE_LEX, ctx.cases(6000, 800_000), strat_case, check_lex) {
        return;
    }
    if !ctx.run_prop("one_token_corrupted", RULE_CORRUPT, ctx.cases(3000, 300_000), strat_corrupt, check_corrupt) {
        return;
    }
    if !ctx.run_prop("byte_edits", RULE_MUT, ctx.cases(4000, 600_000), strat_mutated, check_mutated) {
        return;
    }
    if ctx.tier == Tier::Thorough {
        ctx.run_fuzz("libfuzzer_dsl_text", "dsl_text", (250_000.0 * ctx.scale) as u64, 4000, "coverage-guided libFuzzer campaign over DSL text (seed corpus = the 46 repository fixtures): whatever parses must be complete and re-serialisable (C13), and parse -> validate -> calculate -> format must end in a result or clean error (C15); evaluations = executions, distinct_nontrivial = distinct corpus entries");
    }
}

fn replay(name: &str, case: &Value) -> Option<Verdict> {
    match name {
        "lexical_variants" => Some(replay_case::<Case, _>(case, check_lex).unwrap_or_else(Verdict::Fail)),
        "one_token_corrupted" => Some(replay_case::<Corrupt, _>(case, check_corrupt).unwrap_or_else(Verdict::Fail)),
        "byte_edits" => Some(replay_case::<Mutated, _>(case, check_mutated).unwrap_or_else(Verdict::Fail)),
        _ => None,
    }
}
