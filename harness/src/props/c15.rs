//! C15 — every input yields a complete result or a clean error, never a crash (library level;
//! the CLI/MCP fault sequences live in the process-level part of this check).

use crate::led::{Money, Op, Tx};
use crate::props::c13;
use crate::props::PropDef;
use crate::runner::{replay_case, Ctx, Obs, Tier, Verdict};
use crate::tool::{self, Outcome, PanicInfo};
use cgt_core::parser::parse_file;
use cgt_money::FxCache;
use chrono::NaiveDate;
use proptest::prelude::*;
use rust_decimal::Decimal;
use serde::{Deserialize, Serialize};
use serde_json::Value;
use std::sync::OnceLock;

pub fn def() -> PropDef {
    PropDef {
        id: "C15",
        run,
        replay,
        assumptions: &[
            "hangs are detected by a watchdog and reported as inconclusive (exit 2), never as a violation",
            "an Err with a non-empty message is the contract for invalid input; only panics, aborts and partial output are violations",
        ],
    }
}

pub fn fx() -> &'static FxCache {
    static FX: OnceLock<FxCache> = OnceLock::new();
    FX.get_or_init(|| cgt_money::load_default_cache().expect("bundled rates load"))
}

pub fn f7(p: &PanicInfo) -> Verdict {
    Verdict::Known {
        finding: "F7",
        what: format!("rust_decimal arithmetic overflow panic ('{}') on very large magnitudes instead of an error", p.msg),
    }
}

/// Run the whole library pipeline on parsed transactions; returns the first problem.
pub fn pipeline(txs: &[cgt_core::Transaction], obs: &mut Obs) -> Verdict {
    // validator never panics
    if let Err(p) = tool::guarded(|| cgt_core::validate(txs)) {
        return Verdict::fail(format!("validate panicked: {} at {}", p.msg, p.loc));
    }
    let cfg = tool::all_years_config();
    let out = match tool::guarded(|| cgt_core::calculator::calculate(txs, None, Some(fx()), &cfg)) {
        Ok(Ok(r)) => Outcome::Ok(r),
        Ok(Err(e)) => Outcome::Err(e),
        Err(p) => Outcome::Panic(p),
    };
    match out {
        Outcome::Panic(p) => {
            if p.is_decimal_overflow() {
                return f7(&p);
            }
            Verdict::fail(format!("calculate panicked: '{}' at {}", p.msg, p.loc))
        }
        Outcome::Err(e) => {
            obs.class("calculate_err");
            if e.to_string().trim().is_empty() {
                return Verdict::fail("calculate returned an error with an empty message".to_string());
            }
            Verdict::Pass
        }
        Outcome::Ok(r) => {
            obs.class("calculate_ok");
            // complete result: every front-end that needs no PDF engine renders it
            match tool::guarded(|| cgt_formatter_plain::format(&r)) {
                Ok(s) => {
                    if !s.contains("# SUMMARY") || !s.contains("# HOLDINGS") || !s.contains("# TRANSACTIONS") {
                        return Verdict::fail("plain report lacks a section".to_string());
                    }
                }
                Err(p) => {
                    if p.is_decimal_overflow() {
                        return f7(&p);
                    }
                    return Verdict::fail(format!("plain formatter panicked: '{}' at {}", p.msg, p.loc));
                }
            }
            match tool::guarded(|| serde_json::to_string_pretty(&r)) {
                Ok(Ok(_)) => {}
                Ok(Err(e)) => return Verdict::fail(format!("JSON serialisation of a report failed: {e}")),
                Err(p) => {
                    if p.is_decimal_overflow() {
                        return f7(&p);
                    }
                    return Verdict::fail(format!("JSON serialisation panicked: '{}' at {}", p.msg, p.loc));
                }
            }
            // single-year view of every listed year
            for y in &r.tax_years {
                let yy = y.period.start_year() as i32;
                match tool::guarded(|| cgt_core::calculator::calculate(txs, Some(yy), Some(fx()), &cfg)) {
                    Ok(_) => {}
                    Err(p) => {
                        if p.is_decimal_overflow() {
                            return f7(&p);
                        }
                        return Verdict::fail(format!("calculate(year) panicked: '{}' at {}", p.msg, p.loc));
                    }
                }
            }
            Verdict::Pass
        }
    }
}

// ---------- (i) arbitrary text ----------

#[derive(Clone, Debug, Serialize, Deserialize)]
pub struct TextCase {
    pub text: String,
}

const RULE_TEXT: &str = "arbitrary strings: random unicode, random strings over the DSL alphabet, and valid DSL with byte edits, run through parse -> validate -> calculate -> plain/JSON formatting; non-trivial = the text parses (reaches calculate); distinct by text hash";

fn strat_text(_t: Tier) -> BoxedStrategy<TextCase> {
    let alphabet = "[0-9A-Za-z @#.\\-\\n\\r\\t]{0,200}";
    let dslish = proptest::collection::vec(
        prop_oneof![
            "(19|20)[0-9]{2}-(0[1-9]|1[0-2])-(0[1-9]|[12][0-9]) (BUY|SELL|buy|Sell) [A-Z]{1,4} [0-9]{1,9}(\\.[0-9]{1,9})? @ [0-9]{1,9}(\\.[0-9]{1,6})?( (USD|GBP|EUR|XXX|ZZZ))?( FEES [0-9]{1,5})?",
            "(19|20)[0-9]{2}-(0[1-9]|1[0-2])-(0[1-9]|[12][0-9]) (SPLIT|UNSPLIT) [A-Z]{1,4} RATIO [0-9]{1,3}(\\.[0-9]{1,3})?",
            "(19|20)[0-9]{2}-(0[1-9]|1[0-2])-(0[1-9]|[12][0-9]) (CAPRETURN|ACCUMULATION) [A-Z]{1,4} [0-9]{1,5} TOTAL [0-9]{1,7}(\\.[0-9]{1,2})?( (FEES|TAX) [0-9]{1,4})?",
            "(19|20)[0-9]{2}-(0[1-9]|1[0-2])-(0[1-9]|[12][0-9]) DIVIDEND [A-Z]{1,4} TOTAL [0-9]{1,7}( TAX [0-9]{1,4})?",
            "[0-9]{4}-[0-9]{2}-[0-9]{2} BUY A [0-9]{20,40} @ [0-9]{20,40}",
            "2020-03-0[12] (BUY|SELL) (A|B) (0|0\\.0|1|5) @ [0-9]{1,3}( FEES [0-9])?",
            "2020-03-0[12] (BUY|SELL) (A|B) (0|0\\.0|1|5) @ [0-9]{1,3}( FEES [0-9])?",
            "2020-03-0[12] (SPLIT|UNSPLIT) (A|B) RATIO (0|0\\.0|1|2)",
            "2020-03-0[12] (CAPRETURN|ACCUMULATION) (A|B) (0|1|5) TOTAL (0|1|5)",
            "#[ -~]{0,30}",
            Just(String::new()),
        ],
        0..12,
    )
    .prop_map(|l| l.join("\n"));
    prop_oneof![
        2 => any::<String>(),
        3 => alphabet.prop_map(|s| s),
        5 => dslish,
    ]
    .prop_map(|text| TextCase { text })
    .boxed()
}

pub fn check_text(c: &TextCase, obs: &mut Obs) -> Verdict {
    obs.hash = crate::led::hash_str(&c.text);
    match tool::guarded(|| parse_file(&c.text)) {
        Err(p) => Verdict::fail(format!("parser panicked: '{}' at {}\n{:?}", p.msg, p.loc, c.text)),
        Ok(Err(e)) => {
            obs.class("parse_err");
            if e.to_string().trim().is_empty() {
                return Verdict::fail("parse error with empty message".to_string());
            }
            Verdict::Pass
        }
        Ok(Ok(txs)) => {
            obs.class("parsed");
            obs.nontrivial = !txs.is_empty();
            if obs.sample.is_none() && txs.len() >= 2 {
                obs.sample = Some(Value::String(c.text.clone()));
            }
            pipeline(&txs, obs)
        }
    }
}

// ---------- (ii) hostile but well-formed ledgers ----------

#[derive(Clone, Debug, Serialize, Deserialize)]
pub struct Hostile {
    pub txs: Vec<Tx>,
}

fn hostile_dec() -> BoxedStrategy<Decimal> {
    prop_oneof![
        3 => (0i64..1000).prop_map(Decimal::from),
        2 => Just(Decimal::ZERO),
        1 => Just(Decimal::MAX),
        1 => Just(Decimal::from_i128_with_scale(1, 28)),
        1 => (1i64..1000, 20u32..29).prop_map(|(m, s)| Decimal::new(m, s)),
        2 => (1u64..u64::MAX, 0u32..10).prop_map(|(m, s)| Decimal::from_i128_with_scale(m as i128, s)),
        1 => (1u64..u64::MAX).prop_map(|m| Decimal::from_i128_with_scale((m as i128) << 30, 0)),
        1 => (1i64..100).prop_map(|m| Decimal::from(m) * Decimal::from(10_000_000_000_000_000i64)),
    ]
    .boxed()
}

fn hostile_money() -> BoxedStrategy<Money> {
    (hostile_dec(), prop_oneof![16 => Just("GBP"), 3 => Just("USD"), 1 => Just("XAU"), 1 => Just("ZWL"), 1 => Just("JPY")]).prop_map(|(a, c)| Money { a, c: c.into() }).boxed()
}

fn hostile_date() -> BoxedStrategy<NaiveDate> {
    prop_oneof![
        // a small pool: several hostile lines of one security on one date are the norm
        40 => prop_oneof![Just((2020, 3, 1)), Just((2020, 3, 2)), Just((2020, 3, 31)), Just((2020, 4, 5)), Just((2020, 4, 6)), Just((2021, 1, 4))].prop_map(|(y, m, d)| NaiveDate::from_ymd_opt(y, m, d).expect("d")),
        30 => (2015i32..2026, 1u32..13, 1u32..29).prop_filter_map("d", |(y, m, d)| NaiveDate::from_ymd_opt(y, m, d)),
        4 => (1900i32..2101, 1u32..13, 1u32..29).prop_filter_map("d", |(y, m, d)| NaiveDate::from_ymd_opt(y, m, d)),
        1 => Just(NaiveDate::from_ymd_opt(1, 1, 1).expect("d")),
        1 => Just(NaiveDate::from_ymd_opt(9999, 12, 31).expect("d")),
        1 => Just(NaiveDate::from_ymd_opt(1900, 4, 5).expect("d")),
        1 => Just(NaiveDate::from_ymd_opt(2101, 4, 6).expect("d")),
    ]
    .boxed()
}

fn hostile_tx() -> BoxedStrategy<Tx> {
    let op = prop_oneof![
        3 => (hostile_dec(), hostile_money(), hostile_money()).prop_map(|(q, p, f)| Op::Buy { q, p, f }),
        3 => (hostile_dec(), hostile_money(), hostile_money()).prop_map(|(q, p, f)| Op::Sell { q, p, f }),
        1 => (hostile_money(), hostile_money()).prop_map(|(total, tax)| Op::Div { total, tax }),
        1 => (hostile_dec(), hostile_money(), hostile_money()).prop_map(|(q, total, tax)| Op::Acc { q, total, tax }),
        1 => (hostile_dec(), hostile_money(), hostile_money()).prop_map(|(q, total, fees)| Op::CapRet { q, total, fees }),
        1 => hostile_dec().prop_map(|r| Op::Split { r }),
        1 => hostile_dec().prop_map(|r| Op::Unsplit { r }),
    ];
    (hostile_date(), prop_oneof![Just("AAA"), Just("BBB")], op).prop_map(|(date, t, op)| Tx { date, ticker: t.into(), op }).boxed()
}

const RULE_HOSTILE: &str = "structurally valid ledgers with zero quantities/prices/ratios, sells first, magnitudes from 1e-28 to 7.9e28, dates 0001-01-01/9999-12-31 and range edges, currencies without rates; through validate -> calculate -> formatting; non-trivial = at least one hostile feature (zero quantity/ratio, magnitude >= 1e15 or scale >= 20, out-of-range date, unrated currency); distinct by DSL hash";

fn strat_hostile(t: Tier) -> BoxedStrategy<Hostile> {
    proptest::collection::vec(hostile_tx(), 1..t.pick(8, 14)).prop_map(|txs| Hostile { txs }).boxed()
}

pub fn check_hostile(c: &Hostile, obs: &mut Obs) -> Verdict {
    let dsl = crate::led::to_dsl(&c.txs);
    obs.hash = crate::led::hash_str(&dsl);
    let big = Decimal::from(1_000_000_000_000_000i64);
    let mut hostile = false;
    for t in &c.txs {
        let y = chrono::Datelike::year(&t.date);
        hostile |= !(1901..=2100).contains(&y);
        for m in t.monies() {
            hostile |= m.a >= big || m.a.scale() >= 20 || ["XAU", "ZWL"].contains(&m.c.as_str());
        }
        match &t.op {
            Op::Buy { q, .. } | Op::Sell { q, .. } | Op::Acc { q, .. } | Op::CapRet { q, .. } => hostile |= q.is_zero() || *q >= big || q.scale() >= 20,
            Op::Split { r } | Op::Unsplit { r } => hostile |= r.is_zero() || *r >= big,
            _ => {}
        }
    }
    obs.nontrivial = hostile;
    if obs.sample.is_none() && hostile {
        obs.sample = Some(tool::sample_of(&c.txs));
    }
    let txs = crate::led::to_core(&c.txs);
    match pipeline(&txs, obs) {
        Verdict::Fail(m) => Verdict::fail(format!("{m}\n{dsl}")),
        v => v,
    }
}

// ---------- (iv) the standalone validator ----------

#[derive(Clone, Debug, Serialize, Deserialize)]
pub struct ValCase {
    pub txs: Vec<Tx>,
}

fn signed_dec() -> BoxedStrategy<Decimal> {
    prop_oneof![
        12 => (1i64..1000, 0u32..4).prop_map(|(m, s)| Decimal::new(m, s)),
        2 => (-1000i64..0, 0u32..4).prop_map(|(m, s)| Decimal::new(m, s)),
        2 => Just(Decimal::ZERO),
        1 => Just(Decimal::new(-1, 28)),
        1 => Just(Decimal::new(1, 28)),
        1 => Just(-Decimal::ZERO),
        1 => Just(Decimal::MIN),
    ]
    .boxed()
}
fn signed_money() -> BoxedStrategy<Money> {
    (signed_dec(), prop_oneof![Just("GBP"), Just("USD")]).prop_map(|(a, c)| Money { a, c: c.into() }).boxed()
}
fn val_tx() -> BoxedStrategy<Tx> {
    let op = prop_oneof![
        (signed_dec(), signed_money(), signed_money()).prop_map(|(q, p, f)| Op::Buy { q, p, f }),
        (signed_dec(), signed_money(), signed_money()).prop_map(|(q, p, f)| Op::Sell { q, p, f }),
        (signed_money(), signed_money()).prop_map(|(total, tax)| Op::Div { total, tax }),
        (signed_dec(), signed_money(), signed_money()).prop_map(|(q, total, tax)| Op::Acc { q, total, tax }),
        (signed_dec(), signed_money(), signed_money()).prop_map(|(q, total, fees)| Op::CapRet { q, total, fees }),
        signed_dec().prop_map(|r| Op::Split { r }),
        signed_dec().prop_map(|r| Op::Unsplit { r }),
    ];
    (c13::arb_date(), prop_oneof![Just("AAA"), Just("BBB")], op).prop_map(|(date, t, op)| Tx { date, ticker: t.into(), op }).boxed()
}
fn strat_val(_t: Tier) -> BoxedStrategy<ValCase> {
    proptest::collection::vec(val_tx(), 1..5).prop_map(|txs| ValCase { txs }).boxed()
}

const RULE_VAL: &str = "transaction values with arbitrary signs in every numeric field; oracle recomputed independently: invalid <=> some quantity <= 0, or some price/fee/total < 0, or some ratio <= 0; non-trivial = exactly one field of the list violates a rule, or none; distinct by debug hash";

fn violations(t: &Tx) -> usize {
    let z = Decimal::ZERO;
    match &t.op {
        Op::Buy { q, p, f } | Op::Sell { q, p, f } => (*q <= z) as usize + (p.a < z) as usize + (f.a < z) as usize,
        Op::CapRet { q, total, fees } => (*q <= z) as usize + (total.a < z) as usize + (fees.a < z) as usize,
        Op::Acc { q, total, .. } => (*q <= z) as usize + (total.a < z) as usize,
        Op::Div { total, .. } => (total.a < z) as usize,
        Op::Split { r } | Op::Unsplit { r } => (*r <= z) as usize,
    }
}

pub fn check_val(c: &ValCase, obs: &mut Obs) -> Verdict {
    obs.hash = crate::led::hash_str(&format!("{:?}", c.txs));
    let total: usize = c.txs.iter().map(violations).sum();
    obs.nontrivial = total <= 1;
    obs.class(if total == 0 { "valid" } else { "invalid" });
    if obs.sample.is_none() && total == 1 {
        obs.sample = Some(serde_json::to_value(&c.txs).unwrap_or(Value::Null));
    }
    let txs = crate::led::to_core(&c.txs);
    let res = match tool::guarded(|| cgt_core::validate(&txs)) {
        Ok(r) => r,
        Err(p) => return Verdict::fail(format!("validate panicked: {} at {}", p.msg, p.loc)),
    };
    if res.is_valid() != (total == 0) {
        return Verdict::fail(format!(
            "validator says valid={} but the list has {total} rule violations (errors: {:?})\n{:?}",
            res.is_valid(),
            res.errors.iter().map(|e| e.to_string()).collect::<Vec<_>>(),
            c.txs
        ));
    }
    // (which transaction an error message points at is not part of the statement)
    Verdict::Pass
}

// ---------- converter entry point: arbitrary text ----------

#[derive(Clone, Debug, Serialize, Deserialize)]
pub struct ConvCase {
    pub transactions: String,
    pub awards: Option<String>,
}

const RULE_CONV: &str = "arbitrary and near-valid JSON texts through the Schwab converter (with and without awards text); oracle: Ok or Err with a message, no panic; non-trivial = conversion succeeds; distinct by text hash";

fn strat_conv(_t: Tier) -> BoxedStrategy<ConvCase> {
    let row = (
        prop_oneof![Just("Buy"), Just("Sell"), Just("Cancel Sell"), Just("Stock Plan Activity"), Just("Cash Dividend"), Just("NRA Tax Adj"), Just("Stock Split"), Just("Wire Sent"), Just("Mystery"), Just("")],
        prop_oneof![Just("01/02/2023".to_string()), Just("02/30/2023".to_string()), Just("01/02/2023 as of 12/30/2022".to_string()), Just("as of ".to_string()), Just("x as of y".to_string()), "[0-9/ ]{0,12}", Just("12/31/9999".to_string()), Just("01/01/0001".to_string())],
        prop_oneof![Just("XYZ".to_string()), Just("".to_string()), "[ -~]{0,6}"],
        prop_oneof![Just("10".to_string()), Just("".to_string()), Just("--".to_string()), Just("$1,000.50".to_string()), Just("-5".to_string()), Just("1e5".to_string()), Just("79228162514264337593543950335".to_string()), Just("$".to_string()), "[0-9.,$-]{0,12}"],
        prop_oneof![Just("10".to_string()), Just("".to_string()), Just("$12.5".to_string()), Just("99999999999999999999".to_string()), "[0-9.,$-]{0,12}"],
        prop_oneof![Just("".to_string()), Just("$0.25".to_string()), Just("abc".to_string())],
        prop_oneof![Just("".to_string()), Just("-$43,640.34".to_string()), Just("$12".to_string()), Just("NaN".to_string())],
        "[ -~\\n\\r\\t#\"]{0,20}",
    )
        .prop_map(|(action, date, symbol, qty, price, fees, amount, desc)| {
            serde_json::json!({"Date": date, "Action": action, "Symbol": symbol, "Description": desc, "Quantity": qty, "Price": price, "Fees & Comm": fees, "Amount": amount})
        });
    let good = proptest::collection::vec(row, 0..8).prop_map(|rows| serde_json::json!({"BrokerageTransactions": rows}).to_string());
    let awards = prop_oneof![
        Just(None),
        Just(Some("{\"Transactions\": []}".to_string())),
        Just(Some("{\"Transactions\": [{\"Date\": \"01/02/2023\", \"Action\": \"Deposit\", \"Symbol\": \"XYZ\", \"TransactionDetails\": [{\"Details\": {\"VestDate\": \"12/30/2022\", \"VestFairMarketValue\": \"$12.5\"}}]}]}".to_string())),
        Just(Some("{\"Transactions\": [{\"Date\": \"13/45/2023\", \"Symbol\": \"XYZ\", \"TransactionDetails\": []}]}".to_string())),
        any::<String>().prop_map(Some),
    ];
    (prop_oneof![6 => good, 1 => any::<String>(), 1 => Just("{}".to_string()), 1 => Just("{\"BrokerageTransactions\": [1, null, \"x\", {}]}".to_string())], awards)
        .prop_map(|(transactions, awards)| ConvCase { transactions, awards })
        .boxed()
}

pub fn check_conv(c: &ConvCase, obs: &mut Obs) -> Verdict {
    use cgt_converter::schwab::{SchwabConverter, SchwabInput};
    use cgt_converter::BrokerConverter;
    obs.hash = crate::led::hash_str(&format!("{}##{:?}", c.transactions, c.awards));
    let input = SchwabInput { transactions_json: c.transactions.clone(), awards_json: c.awards.clone() };
    match tool::guarded(|| SchwabConverter::new().convert(&input)) {
        Err(p) => {
            if p.is_decimal_overflow() {
                return f7(&p);
            }
            Verdict::fail(format!("converter panicked: '{}' at {}\n{}", p.msg, p.loc, c.transactions))
        }
        Ok(Err(e)) => {
            obs.class("convert_err");
            if e.to_string().trim().is_empty() {
                return Verdict::fail("converter error with empty message".to_string());
            }
            Verdict::Pass
        }
        Ok(Ok(out)) => {
            obs.class("convert_ok");
            obs.nontrivial = true;
            if obs.sample.is_none() {
                obs.sample = Some(Value::String(c.transactions.clone()));
            }
            let _ = out;
            Verdict::Pass
        }
    }
}

fn run(ctx: &Ctx) {
    if !ctx.run_prop("arbitrary_text", RULE_TEXT, ctx.cases(5000, 480_000), strat_text, check_text) {
        return;
    }
    if !ctx.run_prop("hostile_ledgers", RULE_HOSTILE, ctx.cases(3000, 480_000), strat_hostile, check_hostile) {
        return;
    }
    if !ctx.run_prop("validator", RULE_VAL, ctx.cases(3000, 300_000), strat_val, check_val) {
        return;
    }
    if !ctx.run_prop("converter_text", RULE_CONV, ctx.cases(3000, 300_000), strat_conv, check_conv) {
        return;
    }
    if !crate::props::proc_checks::c15_cli_faults(ctx) {
        return;
    }
    if ctx.tier == Tier::Thorough {
        if !ctx.run_fuzz("libfuzzer_dsl_text", "dsl_text", (250_000.0 * ctx.scale) as u64, 4000, "coverage-guided libFuzzer campaign over DSL text (seed corpus = the 46 repository fixtures): whatever parses must be complete and re-serialisable (C13), and parse -> validate -> calculate -> format must end in a result or clean error (C15); evaluations = executions, distinct_nontrivial = distinct corpus entries") {
            return;
        }
        ctx.run_fuzz("libfuzzer_schwab_json", "schwab_json", (2_000_000.0 * ctx.scale) as u64, 20000, "coverage-guided libFuzzer campaign over Schwab JSON text (seed = repository fixture): conversion must end in a result or a clean error; evaluations = executions, distinct_nontrivial = distinct corpus entries");
    }
}

fn replay(name: &str, case: &Value) -> Option<Verdict> {
    match name {
        "arbitrary_text" => Some(replay_case::<TextCase, _>(case, check_text).unwrap_or_else(Verdict::Fail)),
        "hostile_ledgers" => Some(replay_case::<Hostile, _>(case, check_hostile).unwrap_or_else(Verdict::Fail)),
        "validator" => Some(replay_case::<ValCase, _>(case, check_val).unwrap_or_else(Verdict::Fail)),
        "converter_text" => Some(replay_case::<ConvCase, _>(case, check_conv).unwrap_or_else(Verdict::Fail)),
        other => crate::props::proc_checks::replay(other, case),
    }
}
