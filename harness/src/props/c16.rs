//! C16 — deterministic, canonically ordered output.

use crate::led::Op;
use crate::lgen::{self, GenCfg, GenLedger, SplitMode};
use crate::proc::{self, Scratch};
use crate::props::PropDef;
use crate::runner::{replay_case, Ctx, Obs, Tier, Verdict};
use crate::tool::{self, Outcome};
use proptest::prelude::*;
use serde::{Deserialize, Serialize};
use serde_json::Value;

pub fn def() -> PropDef {
    PropDef {
        id: "C16",
        run,
        replay,
        assumptions: &[
            "hash seeds cannot be enumerated, only resampled: every HashMap instance gets fresh keys, so 20 in-process repetitions and 4-40 process executions per input sample the schedules; with k keys a missing sort survives one comparison with probability about 1/k!",
        ],
    }
}

const RULE: &str = "ledgers with 6-12 securities, several disposals per date, 3-10 tax years (so every internal hash map has many keys), shuffled input lines; calculate + text + JSON repeated 20 times must be byte-identical and canonically ordered (years ascending, disposals by date then ticker, holdings by ticker, echoed trades by date then ticker); non-trivial = >=5 securities with disposals in one tax year; distinct by DSL hash";

fn strat(t: Tier) -> BoxedStrategy<GenLedger> {
    prop_oneof![
        lgen::ledger_strategy(GenCfg::basic().secs(12).acts(6).days(8, t.pick(18, 30)).splits(SplitMode::Terminating).dividends(true).shuffle(true).years(2015, 2021)),
        // prefix-related ticker names (GOOG/GOOGL, BT/BTA, A/AA/AAB): ticker order must still be total
        lgen::ledger_strategy(GenCfg::basic().secs(12).acts(6).days(8, t.pick(18, 30)).splits(SplitMode::Terminating).dividends(true).shuffle(true).years(2015, 2021).wide(true)),
    ]
    .boxed()
}

pub fn check(gl: &GenLedger, obs: &mut Obs) -> Verdict {
    let ledger = &gl.ledger;
    if lgen::has_excluded_placement(ledger) {
        obs.excluded += 1;
        return Verdict::Pass;
    }
    let dsl = crate::led::to_dsl(ledger);
    obs.hash = crate::led::hash_str(&dsl);
    let render = || -> Result<(String, String, cgt_core::TaxReport), String> {
        match tool::calc(ledger) {
            Outcome::Ok(r) => {
                let text = cgt_formatter_plain::format(&r);
                let json = serde_json::to_string_pretty(&r).map_err(|e| e.to_string())?;
                Ok((text, json, r))
            }
            Outcome::Err(e) => Err(format!("ERR:{e}")),
            Outcome::Panic(p) => Err(format!("PANIC:{} at {}", p.msg, p.loc)),
        }
    };
    let first = render();
    let (text0, json0, r0) = match &first {
        Ok(x) => x.clone(),
        Err(e) if e.starts_with("PANIC") => return Verdict::fail(e.clone()),
        Err(e) => {
            // errors must be deterministic too
            for _ in 0..5 {
                if render().err().as_ref() != Some(e) {
                    return Verdict::fail(format!("error message differs between identical runs: {e}"));
                }
            }
            obs.class("tool_rejected");
            return Verdict::Pass;
        }
    };
    for i in 0..19 {
        match render() {
            Ok((t, j, _)) => {
                if t != text0 {
                    return Verdict::fail(format!("text report differs between identical runs (repetition {i})\n{}", first_diff(&text0, &t)));
                }
                if j != json0 {
                    return Verdict::fail(format!("JSON report differs between identical runs (repetition {i})\n{}", first_diff(&json0, &j)));
                }
            }
            Err(e) => return Verdict::fail(format!("run {i} failed while the first succeeded: {e}")),
        }
    }
    // canonical order
    let mut prev_year = None;
    let mut max_secs = 0;
    for y in &r0.tax_years {
        if let Some(p) = prev_year {
            if p >= y.period.start_year() {
                return Verdict::fail(format!("tax years not ascending: {p} then {}", y.period.start_year()));
            }
        }
        prev_year = Some(y.period.start_year());
        for w in y.disposals.windows(2) {
            let a = (w[0].date, w[0].ticker.as_str());
            let b = (w[1].date, w[1].ticker.as_str());
            if a >= b {
                return Verdict::fail(format!("disposals not ordered by date then ticker: {a:?} before {b:?}"));
            }
        }
        let secs: std::collections::BTreeSet<&str> = y.disposals.iter().map(|d| d.ticker.as_str()).collect();
        max_secs = max_secs.max(secs.len());
    }
    for w in r0.holdings.windows(2) {
        if w[0].ticker >= w[1].ticker {
            return Verdict::fail(format!("holdings not ordered by ticker: {} before {}", w[0].ticker, w[1].ticker));
        }
    }
    // text: echoed trades by date then ticker; disposal numbering follows the report order
    if let Err(e) = crate::props::c17::check_text(&r0, &text0) {
        return Verdict::fail(format!("text report not in canonical order / inconsistent: {e}"));
    }
    obs.nontrivial = max_secs >= 5;
    obs.class_if(max_secs >= 5, "5+_securities_disposed_in_one_year");
    obs.class_if(r0.tax_years.len() >= 3, "3+_tax_years");
    obs.class(&format!("holdings_{}", r0.holdings.len().min(12)));
    if obs.sample.is_none() && max_secs >= 5 {
        obs.sample = Some(Value::Array(crate::led::dsl_lines(ledger).into_iter().take(12).map(Value::String).collect()));
    }
    let _ = Op::Split { r: 1.into() };
    Verdict::Pass
}

fn first_diff(a: &str, b: &str) -> String {
    for (i, (x, y)) in a.lines().zip(b.lines()).enumerate() {
        if x != y {
            return format!("line {}: '{x}' vs '{y}'", i + 1);
        }
    }
    format!("lengths {} vs {}", a.len(), b.len())
}

// ---------- PDF text runs and converter, in process ----------

#[derive(Clone, Debug, Serialize, Deserialize)]
pub struct PdfCase {
    pub gl: GenLedger,
}

const RULE_PDF: &str = "same ledgers: the text runs of the compiled PDF (verif-hooks) from 3 compilations must be identical after masking the 'Generated:' run, and the generated PDF bytes must start with %PDF; non-trivial = >=5 securities; distinct by DSL hash";

fn strat_pdf(t: Tier) -> BoxedStrategy<PdfCase> {
    lgen::ledger_strategy(GenCfg::basic().secs(8).acts(5).days(6, t.pick(12, 18)).dividends(true).shuffle(true).years(2015, 2021).wide(true)).prop_map(|gl| PdfCase { gl }).boxed()
}

pub fn check_pdf(c: &PdfCase, obs: &mut Obs) -> Verdict {
    let ledger = &c.gl.ledger;
    if lgen::has_excluded_placement(ledger) {
        obs.excluded += 1;
        return Verdict::Pass;
    }
    obs.hash = crate::led::hash_str(&crate::led::to_dsl(ledger));
    let Outcome::Ok(r) = tool::calc(ledger) else {
        obs.class("tool_rejected");
        return Verdict::Pass;
    };
    let secs: std::collections::BTreeSet<&str> = r.tax_years.iter().flat_map(|y| y.disposals.iter().map(|d| d.ticker.as_str())).collect();
    obs.nontrivial = secs.len() >= 5;
    let grab = || -> Result<Vec<String>, String> {
        match tool::guarded(|| cgt_formatter_pdf::verif_text_runs(&r)) {
            Ok(Ok(runs)) => Ok(runs.into_iter().map(|x| if x.text.starts_with("Generated:") { "Generated: <masked>".to_string() } else { format!("{}|{:.2}|{:.2}|{}", x.page, x.x, x.y, x.text) }).collect()),
            Ok(Err(e)) => Err(e.to_string()),
            Err(p) => Err(format!("PANIC {} at {}", p.msg, p.loc)),
        }
    };
    let a = match grab() {
        Ok(a) => a,
        Err(e) => return Verdict::fail(format!("PDF compilation failed: {e}")),
    };
    if obs.sample.is_none() {
        obs.sample = Some(serde_json::json!({"ledger_lines": ledger.len(), "pdf_text_runs": a.len()}));
    }
    for i in 0..2 {
        match grab() {
            Ok(b) => {
                if a != b {
                    let d = a.iter().zip(b.iter()).find(|(x, y)| x != y);
                    return Verdict::fail(format!("PDF text runs differ between identical compilations (repetition {i}): {d:?}"));
                }
            }
            Err(e) => return Verdict::fail(format!("PDF compilation failed on repetition: {e}")),
        }
    }
    Verdict::Pass
}

// ---------- converter, in process ----------

const RULE_CONV: &str = "generated Schwab exports squeezed onto 1-4 dates (many same-date rows of several symbols: trades, dividends, withholdings with and without dividend, unknown actions): 12 in-process conversions (each with fresh hash seeds) must give identical DSL (minus the '# Converted:' line), warnings and skipped count; non-trivial = >=2 symbols share a date; distinct by JSON hash";

fn strat_conv(t: Tier) -> BoxedStrategy<crate::props::conv::Case18> {
    (crate::props::conv::strat18_pub(t), 1u16..5)
        .prop_map(|(mut c, ndays)| {
            for r in c.rows.iter_mut() {
                r.off %= ndays;
                r.as_of_lag = None;
            }
            c
        })
        .boxed()
}

pub fn check_conv(c: &crate::props::conv::Case18, obs: &mut Obs) -> Verdict {
    use cgt_converter::schwab::{SchwabConverter, SchwabInput};
    use cgt_converter::BrokerConverter;
    let (tx, awards) = crate::props::conv::export_texts(c);
    obs.hash = crate::led::hash_str(&tx);
    let mut by_date: std::collections::BTreeMap<u16, std::collections::BTreeSet<u8>> = Default::default();
    for r in &c.rows {
        by_date.entry(r.off).or_default().insert(r.sym % 5);
    }
    obs.nontrivial = by_date.values().any(|s| s.len() >= 2);
    if obs.sample.is_none() {
        obs.sample = Some(serde_json::json!({"rows": c.rows.len(), "dates": by_date.len()}));
    }
    let input = SchwabInput { transactions_json: tx, awards_json: Some(awards) };
    let once = || -> Result<(String, Vec<String>, usize), String> {
        match tool::guarded(|| SchwabConverter::new().convert(&input)) {
            Ok(Ok(o)) => Ok((o.cgt_content.lines().filter(|l| !l.starts_with("# Converted:")).collect::<Vec<_>>().join("\n"), o.warnings, o.skipped_count)),
            Ok(Err(e)) => Err(format!("ERR {e}")),
            Err(p) => Err(format!("PANIC {} at {}", p.msg, p.loc)),
        }
    };
    let first = once();
    if let Err(e) = &first {
        if e.starts_with("PANIC") {
            return Verdict::fail(e.clone());
        }
    }
    for i in 0..11 {
        let again = once();
        if again != first {
            let detail = match (&first, &again) {
                (Ok(a), Ok(b)) => {
                    if a.0 != b.0 { first_diff(&a.0, &b.0) } else if a.1 != b.1 { format!("warnings {:?} vs {:?}", a.1, b.1) } else { format!("skipped {} vs {}", a.2, b.2) }
                }
                (a, b) => format!("{a:?} vs {b:?}"),
            };
            return Verdict::fail(format!("converting the same export twice gives different output (repetition {i}): {detail}"));
        }
    }
    Verdict::Pass
}

// ---------- processes ----------

#[derive(Clone, Debug, Serialize, Deserialize)]
pub struct ProcCase {
    pub gl: GenLedger,
    pub export: crate::props::conv::Case18,
}

const RULE_PROC: &str = "process level: `cgt-tool report` (plain, json), `cgt-tool parse` and `cgt-tool convert schwab` on one generated input executed N times in fresh processes (fresh hash seeds) must print byte-identical stdout (converter: after masking the '# Converted:' line); N = 4 quick, 40 thorough; non-trivial = every case; distinct by input hash";

fn strat_proc(t: Tier) -> BoxedStrategy<ProcCase> {
    let cfg = GenCfg::basic().secs(10).acts(6).days(8, t.pick(16, 24)).splits(SplitMode::Terminating).dividends(true).shuffle(true).years(2015, 2021).wide(true);
    (lgen::ledger_strategy(cfg), crate::props::conv::strat18_pub(t)).prop_map(|(gl, export)| ProcCase { gl, export }).boxed()
}

pub fn check_proc(c: &ProcCase, obs: &mut Obs, reps: usize) -> Verdict {
    if lgen::has_excluded_placement(&c.gl.ledger) {
        obs.excluded += 1;
        return Verdict::Pass;
    }
    let dsl = crate::led::to_dsl(&c.gl.ledger) + "\n";
    obs.hash = crate::led::hash_str(&dsl);
    obs.nontrivial = true;
    let sc = Scratch::new("c16");
    let input = sc.write("in.cgt", &dsl).to_string_lossy().to_string();
    let (export_json, awards_json) = crate::props::conv::export_texts(&c.export);
    let exp = sc.write("export.json", &export_json).to_string_lossy().to_string();
    let awd = sc.write("awards.json", &awards_json).to_string_lossy().to_string();
    if obs.sample.is_none() {
        obs.sample = Some(serde_json::json!({"ledger_lines": c.gl.ledger.len(), "export_rows": c.export.rows.len(), "repetitions": reps}));
    }
    let commands: Vec<(&str, Vec<&str>)> = vec![
        ("report plain", vec!["report", &input]),
        ("report json", vec!["report", &input, "--format", "json"]),
        ("parse", vec!["parse", &input]),
        ("convert schwab", vec!["convert", "schwab", &exp, "--awards", &awd]),
    ];
    for (name, args) in commands {
        let mask = |o: &proc::CliOut| -> (Option<i32>, String, String) {
            let out = o.stdout_s().lines().filter(|l| !l.starts_with("# Converted:")).collect::<Vec<_>>().join("\n");
            (o.code, out, o.stderr_s())
        };
        let first = proc::run_cli(&sc, &args);
        if crate::props::proc_checks::no_crash(&first).is_err() {
            if first.code == Some(101) && first.stderr_s().contains("overflowed") {
                continue;
            }
            return Verdict::fail(format!("{name}: abnormal exit {}", first.describe()));
        }
        let a = mask(&first);
        obs.class(&format!("{}_{}", name.replace(' ', "_"), if first.ok() { "ok" } else { "err" }));
        for i in 1..reps {
            let o = proc::run_cli(&sc, &args);
            let b = mask(&o);
            if a != b {
                return Verdict::fail(format!(
                    "{name}: output differs between process {i} and the first run: exit {:?} vs {:?}; {}",
                    a.0,
                    b.0,
                    first_diff(&format!("{}\n{}", a.1, a.2), &format!("{}\n{}", b.1, b.2))
                ));
            }
        }
    }
    Verdict::Pass
}

fn check_proc_quick(c: &ProcCase, obs: &mut Obs) -> Verdict {
    check_proc(c, obs, 4)
}
fn check_proc_thorough(c: &ProcCase, obs: &mut Obs) -> Verdict {
    check_proc(c, obs, 40)
}

fn run(ctx: &Ctx) {
    if !ctx.run_prop("in_process_repetition", RULE, ctx.cases(300, 32_000), strat, check) {
        return;
    }
    ctx.shrink_iters.store(100, std::sync::atomic::Ordering::Relaxed);
    if !ctx.run_prop("pdf_text_runs", RULE_PDF, ctx.cases(6, 600), strat_pdf, check_pdf) {
        return;
    }
    ctx.shrink_iters.store(2000, std::sync::atomic::Ordering::Relaxed);
    if !ctx.run_prop("converter_repetition", RULE_CONV, ctx.cases(300, 30_000), strat_conv, check_conv) {
        return;
    }
    ctx.shrink_iters.store(100, std::sync::atomic::Ordering::Relaxed);
    match ctx.tier {
        Tier::Quick => ctx.run_prop("fresh_processes", RULE_PROC, ctx.cases(2, 100), strat_proc, check_proc_quick),
        Tier::Thorough => ctx.run_prop("fresh_processes", RULE_PROC, ctx.cases(2, 100), strat_proc, check_proc_thorough),
    };
}

fn replay(name: &str, case: &Value) -> Option<Verdict> {
    match name {
        "in_process_repetition" => Some(replay_case::<GenLedger, _>(case, check).unwrap_or_else(Verdict::Fail)),
        "pdf_text_runs" => Some(replay_case::<PdfCase, _>(case, check_pdf).unwrap_or_else(Verdict::Fail)),
        "converter_repetition" => Some(replay_case::<crate::props::conv::Case18, _>(case, check_conv).unwrap_or_else(Verdict::Fail)),
        "fresh_processes" => Some(replay_case::<ProcCase, _>(case, check_proc_thorough).unwrap_or_else(Verdict::Fail)),
        _ => None,
    }
}
