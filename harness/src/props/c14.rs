//! C14 — transactions survive DSL and JSON round trips.

use crate::led::{Money, Op, Tx};
use crate::lgen::{self, GenCfg, GenLedger, SplitMode};
use crate::props::PropDef;
use crate::runner::{replay_case, Ctx, Obs, Tier, Verdict};
use crate::tool::{self, Outcome};
use cgt_core::dsl::transactions_to_dsl;
use cgt_core::parser::parse_file;
use cgt_core::{Currency, Transaction};
use chrono::NaiveDate;
use proptest::prelude::*;
use rust_decimal::Decimal;
use serde::{Deserialize, Serialize};
use serde_json::Value;
use std::sync::OnceLock;

pub fn def() -> PropDef {
    PropDef { id: "C14", run, replay, assumptions: &["equality of decimals is numeric; scale preservation is reported as a class, not asserted", "tickers are generated in upper case (the DSL cannot express lower-case tickers)"] }
}

/// every 3-letter code iso_currency knows and renders back unchanged
pub fn currency_codes() -> &'static Vec<String> {
    static CODES: OnceLock<Vec<String>> = OnceLock::new();
    CODES.get_or_init(|| {
        let mut v = vec![];
        for a in b'A'..=b'Z' {
            for b in b'A'..=b'Z' {
                for c in b'A'..=b'Z' {
                    let s = String::from_utf8(vec![a, b, c]).expect("ascii");
                    if let Some(cur) = Currency::from_code(&s) {
                        if cur.code() == s {
                            v.push(s);
                        }
                    }
                }
            }
        }
        v
    })
}

fn arb_dec_wide(positive: bool) -> BoxedStrategy<Decimal> {
    let lo: u32 = if positive { 1 } else { 0 };
    prop_oneof![
        3 => (lo..100_000u32, 0u32..5).prop_map(|(m, s)| Decimal::new(m as i64, s)),
        2 => (any::<u64>(), 0u32..20).prop_map(move |(m, s)| Decimal::from_i128_with_scale((m as i128).max(lo as i128), s)),
        2 => (any::<u64>(), any::<u32>(), 0u32..29).prop_map(move |(lo64, hi, s)| {
            let m: i128 = ((hi as i128) << 64) | lo64 as i128;
            Decimal::from_i128_with_scale(m.max(lo as i128), s)
        }),
        1 => Just(Decimal::from_i128_with_scale(1, 28)),
        1 => Just(Decimal::MAX),
        1 => (1u32..1000, 20u32..29).prop_map(|(m, s)| Decimal::new(m as i64, s)),
        1 => (1u32..1000u32).prop_map(|m| Decimal::from_i128_with_scale(m as i128 * 100_000, 5)), // trailing zeros
        1 => if positive { Just(Decimal::ONE).boxed() } else { Just(Decimal::ZERO).boxed() },
    ]
    .boxed()
}

fn arb_money_wide() -> BoxedStrategy<Money> {
    let codes = currency_codes();
    let n = codes.len();
    (arb_dec_wide(false), prop_oneof![3 => Just(usize::MAX), 2 => 0..n]).prop_map(move |(a, ci)| {
        let c = if ci == usize::MAX { "GBP".to_string() } else { currency_codes()[ci].clone() };
        Money { a, c }
    })
    .boxed()
}

fn arb_ticker_wide() -> BoxedStrategy<String> {
    prop_oneof![
        6 => "[A-Z0-9]{1,12}",
        1 => prop_oneof![Just("BUY"), Just("SELL"), Just("TAX"), Just("TOTAL"), Just("FEES"), Just("RATIO"), Just("SPLIT"), Just("USD"), Just("GBP"), Just("DIVIDEND"), Just("0"), Just("2024")].prop_map(String::from),
    ]
    .boxed()
}

fn arb_date_wide() -> BoxedStrategy<NaiveDate> {
    prop_oneof![
        6 => (1900i32..2101, 1u32..13, 1u32..32),
        2 => (1i32..10000, 1u32..13, 1u32..32),
        1 => Just((1, 1, 1)),
        1 => Just((9999, 12, 31)),
    ]
    .prop_filter_map("valid date", |(y, m, d)| NaiveDate::from_ymd_opt(y, m, d))
    .boxed()
}

fn arb_tx_wide() -> BoxedStrategy<Tx> {
    let op = prop_oneof![
        3 => (arb_dec_wide(true), arb_money_wide(), arb_money_wide()).prop_map(|(q, p, f)| Op::Buy { q, p, f }),
        3 => (arb_dec_wide(true), arb_money_wide(), arb_money_wide()).prop_map(|(q, p, f)| Op::Sell { q, p, f }),
        1 => (arb_money_wide(), arb_money_wide()).prop_map(|(total, tax)| Op::Div { total, tax }),
        1 => (arb_dec_wide(true), arb_money_wide(), arb_money_wide()).prop_map(|(q, total, tax)| Op::Acc { q, total, tax }),
        1 => (arb_dec_wide(true), arb_money_wide(), arb_money_wide()).prop_map(|(q, total, fees)| Op::CapRet { q, total, fees }),
        1 => arb_dec_wide(true).prop_map(|r| Op::Split { r }),
        1 => arb_dec_wide(true).prop_map(|r| Op::Unsplit { r }),
    ];
    (arb_date_wide(), arb_ticker_wide(), op).prop_map(|(date, ticker, op)| Tx { date, ticker, op }).boxed()
}

#[derive(Clone, Debug, Serialize, Deserialize)]
pub struct Case {
    pub txs: Vec<Tx>,
}

const RULE: &str = "arbitrary transaction lists of all seven kinds: dates 0001-9999, tickers incl. keyword/currency/all-digit spellings, decimals with 96-bit mantissas and scales 0-28, any ISO-4217 code on each amount, zero and non-zero optional clauses; non-trivial = some decimal has scale >= 10 or mantissa >= 2^64, or a non-GBP currency on a fee/tax, or a keyword-like ticker; distinct by DSL hash";

fn zero_norm(t: &Tx) -> Tx {
    let mut x = t.clone();
    match &mut x.op {
        Op::Buy { f, .. } | Op::Sell { f, .. } | Op::CapRet { fees: f, .. } => {
            if f.a.is_zero() {
                f.c = "GBP".into();
            }
        }
        Op::Div { tax, .. } | Op::Acc { tax, .. } => {
            if tax.a.is_zero() {
                tax.c = "GBP".into();
            }
        }
        _ => {}
    }
    x
}

fn eq_upto_zero_label(a: &[Transaction], b: &[Transaction]) -> Result<(), String> {
    if a.len() != b.len() {
        return Err(format!("{} vs {} transactions", a.len(), b.len()));
    }
    for (x, y) in a.iter().zip(b.iter()) {
        if zero_norm(&crate::led::from_core_tx(x)) != zero_norm(&crate::led::from_core_tx(y)) {
            return Err(format!("{x:?}\n  vs\n{y:?}"));
        }
    }
    Ok(())
}

pub fn check(c: &Case, obs: &mut Obs) -> Verdict {
    let txs = crate::led::to_core(&c.txs);
    let big = |d: &Decimal| d.scale() >= 10 || d.mantissa().unsigned_abs() >= (1u128 << 64);
    let mut wide = false;
    let mut fx_fee = false;
    let mut kw = false;
    let mut scale_change = false;
    for t in &c.txs {
        kw |= ["BUY", "SELL", "TAX", "TOTAL", "FEES", "RATIO", "SPLIT", "USD", "GBP", "DIVIDEND"].contains(&t.ticker.as_str()) || t.ticker.chars().all(|ch| ch.is_ascii_digit());
        let ms = t.monies();
        for m in &ms {
            wide |= big(&m.a);
        }
        if ms.len() == 2 && !ms[1].is_gbp() && !ms[1].a.is_zero() {
            fx_fee = true;
        }
        match &t.op {
            Op::Buy { q, .. } | Op::Sell { q, .. } | Op::Acc { q, .. } | Op::CapRet { q, .. } => wide |= big(q),
            Op::Split { r } | Op::Unsplit { r } => wide |= big(r),
            _ => {}
        }
    }
    obs.nontrivial = wide || fx_fee || kw;
    obs.class_if(wide, "decimal_scale>=10_or_mantissa>=2^64");
    obs.class_if(fx_fee, "foreign_currency_fee_or_tax");
    obs.class_if(kw, "keyword_like_ticker");
    // DSL round trip
    let dsl = match tool::guarded(|| transactions_to_dsl(&txs)) {
        Ok(s) => s,
        Err(p) => return Verdict::fail(format!("DSL writer panicked: {} at {}", p.msg, p.loc)),
    };
    obs.hash = crate::led::hash_str(&dsl);
    if obs.sample.is_none() && obs.nontrivial {
        obs.sample = Some(Value::String(dsl.clone()));
    }
    let back = match tool::guarded(|| parse_file(&dsl)) {
        Ok(Ok(b)) => b,
        Ok(Err(e)) => return Verdict::fail(format!("writer output does not parse: {e}\n{dsl}")),
        Err(p) => return Verdict::fail(format!("parser panicked: {} at {}", p.msg, p.loc)),
    };
    if let Err(e) = eq_upto_zero_label(&txs, &back) {
        return Verdict::fail(format!("DSL round trip changed a transaction:\n{e}\n--- DSL ---\n{dsl}"));
    }
    for (a, b) in txs.iter().zip(back.iter()) {
        let (x, y) = (crate::led::from_core_tx(a), crate::led::from_core_tx(b));
        for (m, n) in x.monies().iter().zip(y.monies().iter()) {
            if m.a.scale() != n.a.scale() {
                scale_change = true;
            }
        }
    }
    obs.class_if(scale_change, "dsl_roundtrip_changed_a_scale");
    // idempotent writing
    let dsl2 = transactions_to_dsl(&back);
    if dsl2 != dsl {
        // only the currency label of a zero fee/tax may have gone; a second pass must be stable
        let back2 = match parse_file(&dsl2) {
            Ok(b) => b,
            Err(e) => return Verdict::fail(format!("second-generation DSL does not parse: {e}")),
        };
        let dsl3 = transactions_to_dsl(&back2);
        if dsl3 != dsl2 {
            return Verdict::fail(format!("writing is not idempotent:\n{dsl2}\n  vs\n{dsl3}"));
        }
        if dsl2.lines().count() != dsl.lines().count() {
            return Verdict::fail("re-written DSL has a different number of lines".to_string());
        }
        obs.class("rewritten_dsl_differs_only_in_zero_clause");
    }
    // JSON round trip
    let json = match tool::guarded(|| serde_json::to_string(&txs)) {
        Ok(Ok(j)) => j,
        Ok(Err(e)) => return Verdict::fail(format!("JSON serialisation failed: {e}")),
        Err(p) => return Verdict::fail(format!("JSON writer panicked: {} at {}", p.msg, p.loc)),
    };
    let from_json: Vec<Transaction> = match tool::guarded(|| serde_json::from_str(&json)) {
        Ok(Ok(v)) => v,
        Ok(Err(e)) => return Verdict::fail(format!("own JSON rejected: {e}\n{json}")),
        Err(p) => return Verdict::fail(format!("JSON reader panicked: {} at {}", p.msg, p.loc)),
    };
    // (the statement's allowance - a zero fee or tax may lose its currency label - covers both
    // round trips)
    if from_json != txs {
        if let Err(e) = eq_upto_zero_label(&txs, &from_json) {
            let first = txs.iter().zip(from_json.iter()).find(|(a, b)| a != b);
            return Verdict::fail(format!("JSON round trip changed a transaction: {e}: {first:?}\n{json}"));
        }
        obs.class("json_roundtrip_differs_only_in_zero_clause_label");
    }
    // pretty JSON (what the CLI prints) too
    let pretty = serde_json::to_string_pretty(&txs).unwrap_or_default();
    match serde_json::from_str::<Vec<Transaction>>(&pretty) {
        Ok(v) if v == txs || eq_upto_zero_label(&txs, &v).is_ok() => {}
        Ok(_) => return Verdict::fail("pretty JSON round trip changed a transaction".to_string()),
        Err(e) => return Verdict::fail(format!("own pretty JSON rejected: {e}")),
    }
    Verdict::Pass
}

// ---------- ledger, its DSL and its JSON produce the same report ----------

const RULE_REPORT: &str = "constructive ledgers (splits, asset events, dividends): report of the transaction list, of its DSL rendering parsed back, and of its JSON rendering read back must be equal; non-trivial = ledger has a disposal; distinct by DSL hash";

fn strat_ledger(t: Tier) -> BoxedStrategy<GenLedger> {
    lgen::ledger_strategy(GenCfg::basic().secs(3).days(2, t.pick(12, 24)).splits(SplitMode::Terminating).events(true).dividends(true))
}

pub fn check_report(gl: &GenLedger, obs: &mut Obs) -> Verdict {
    let ledger = &gl.ledger;
    let txs = crate::led::to_core(ledger);
    let dsl = transactions_to_dsl(&txs);
    obs.hash = crate::led::hash_str(&dsl);
    if obs.sample.is_none() {
        obs.sample = Some(tool::sample_of(ledger));
    }
    let r0 = tool::calc(ledger);
    let via_dsl = match parse_file(&dsl) {
        Ok(v) => v,
        Err(e) => return Verdict::fail(format!("DSL of a generated ledger does not parse: {e}")),
    };
    let json = serde_json::to_string_pretty(&txs).unwrap_or_default();
    let via_json: Vec<Transaction> = match serde_json::from_str(&json) {
        Ok(v) => v,
        Err(e) => return Verdict::fail(format!("JSON of a generated ledger rejected: {e}")),
    };
    let r1 = tool::calc(&crate::led::from_core(&via_dsl));
    let r2 = tool::calc(&crate::led::from_core(&via_json));
    for (name, r) in [("DSL", &r1), ("JSON", &r2)] {
        match (&r0, r) {
            (Outcome::Ok(a), Outcome::Ok(b)) => {
                obs.nontrivial = a.tax_years.iter().any(|y| !y.disposals.is_empty());
                let mut a2 = a.clone();
                let mut b2 = b.clone();
                a2.transactions.clear();
                b2.transactions.clear();
                if a2 != b2 {
                    let mut o = Obs::default();
                    let why = tool::reports_equivalent(a, b, &mut o).err().unwrap_or_else(|| "not bit-identical".into());
                    return Verdict::fail(format!("report via {name} differs: {why}\n{dsl}"));
                }
            }
            (Outcome::Err(x), Outcome::Err(y)) => {
                if x.to_string() != y.to_string() {
                    return Verdict::fail(format!("error via {name} differs: {x} vs {y}"));
                }
            }
            (a, b) => return Verdict::fail(format!("outcome via {name} differs: {} vs {}", a.describe(), b.describe())),
        }
    }
    Verdict::Pass
}

// ---------- the same with foreign currencies, zero optional clauses labelled in any currency ----------

#[derive(Clone, Debug, Serialize, Deserialize)]
pub struct FxReportCase {
    pub gl: GenLedger,
    pub cur: Vec<u8>,
}

const RULE_REPORT_FX: &str = "as ledger_dsl_json_reports, ledgers 2015-2024 whose every monetary field independently is GBP, one of ten rated currencies, or (zero FEES/TAX amounts only) XAU, for which no rate exists: a zero fee or tax may lose only its currency label when written as DSL, so ledger, DSL rendering and JSON rendering must still give the same outcome (bundled rates); non-trivial = a zero optional amount carries a foreign label, or the ledger has a disposal; distinct by DSL hash";

fn strat_ledger_fx(t: Tier) -> BoxedStrategy<FxReportCase> {
    (lgen::ledger_strategy(GenCfg::basic().secs(2).days(2, t.pick(10, 20)).splits(SplitMode::Terminating).events(true).dividends(true).years(2015, 2024)), proptest::collection::vec(0u8..20, 16))
        .prop_map(|(gl, cur)| FxReportCase { gl, cur })
        .boxed()
}

pub fn check_report_fx(c: &FxReportCase, obs: &mut Obs) -> Verdict {
    const CURS: [&str; 10] = ["USD", "EUR", "JPY", "CHF", "AUD", "CAD", "INR", "ZAR", "SEK", "HKD"];
    let mut ledger = c.gl.ledger.clone();
    let mut k = 0usize;
    let mut zero_labelled = false;
    for t in ledger.iter_mut() {
        for (slot, m) in t.monies_mut().into_iter().enumerate() {
            let sel = if c.cur.is_empty() { 0 } else { c.cur[k % c.cur.len()] };
            k += 1;
            if sel >= 10 {
                // second money field of a line = its optional FEES/TAX clause
                if slot == 1 && m.a.is_zero() {
                    m.c = if sel % 2 == 0 { "XAU".to_string() } else { CURS[(sel as usize - 10) % 10].to_string() };
                    zero_labelled = true;
                } else {
                    m.c = CURS[(sel as usize - 10) % 10].to_string();
                }
            }
        }
    }
    let txs = crate::led::to_core(&ledger);
    let dsl = transactions_to_dsl(&txs);
    obs.hash = crate::led::hash_str(&format!("{dsl}#{:?}", txs.iter().map(|t| format!("{:?}", t.operation)).collect::<Vec<_>>()));
    if obs.sample.is_none() && zero_labelled {
        obs.sample = Some(tool::sample_of(&ledger));
    }
    obs.class_if(zero_labelled, "zero_optional_amount_with_foreign_label");
    let cfg = tool::all_years_config();
    let fx = crate::props::c15::fx();
    let run = |l: &[crate::led::Tx]| tool::calc_with(l, None, Some(fx), &cfg);
    let r0 = run(&ledger);
    let via_dsl = match parse_file(&dsl) {
        Ok(v) => v,
        Err(e) => return Verdict::fail(format!("DSL of a generated ledger does not parse: {e}")),
    };
    let json = serde_json::to_string_pretty(&txs).unwrap_or_default();
    let via_json: Vec<Transaction> = match serde_json::from_str(&json) {
        Ok(v) => v,
        Err(e) => return Verdict::fail(format!("JSON of a generated ledger rejected: {e}")),
    };
    let r1 = run(&crate::led::from_core(&via_dsl));
    let r2 = run(&crate::led::from_core(&via_json));
    for (name, r) in [("DSL", &r1), ("JSON", &r2)] {
        match (&r0, r) {
            (Outcome::Ok(a), Outcome::Ok(b)) => {
                obs.nontrivial = zero_labelled || a.tax_years.iter().any(|y| !y.disposals.is_empty());
                let mut a2 = a.clone();
                let mut b2 = b.clone();
                a2.transactions.clear();
                b2.transactions.clear();
                if a2 != b2 {
                    let mut o = Obs::default();
                    let why = tool::reports_equivalent(a, b, &mut o).err().unwrap_or_else(|| "not bit-identical".into());
                    return Verdict::fail(format!("report via {name} differs: {why}\n{dsl}"));
                }
            }
            (Outcome::Err(x), Outcome::Err(y)) => {
                obs.nontrivial = zero_labelled;
                if x.to_string() != y.to_string() {
                    return Verdict::fail(format!("error via {name} differs: {x} vs {y}\n{}", crate::led::to_dsl(&ledger)));
                }
            }
            (Outcome::Panic(p), _) | (_, Outcome::Panic(p)) if p.is_decimal_overflow() => return Verdict::Pass,
            (a, b) => return Verdict::fail(format!("outcome of the ledger and of its {name} rendering differ: {} vs {}\n--- ledger ---\n{}\n--- its DSL rendering ---\n{dsl}", a.describe(), b.describe(), crate::led::to_dsl(&ledger))),
        }
    }
    Verdict::Pass
}

fn strat(t: Tier) -> BoxedStrategy<Case> {
    proptest::collection::vec(arb_tx_wide(), 1..t.pick(8, 20)).prop_map(|txs| Case { txs }).boxed()
}

fn run(ctx: &Ctx) {
    if !ctx.run_prop("arbitrary_lists", RULE, ctx.cases(8000, 5_000_000), strat, check) {
        return;
    }
    if !ctx.run_prop("ledger_dsl_json_reports", RULE_REPORT, ctx.cases(1200, 400_000), strat_ledger, check_report) {
        return;
    }
    if !ctx.run_prop("ledger_dsl_json_reports_fx", RULE_REPORT_FX, ctx.cases(600, 200_000), strat_ledger_fx, check_report_fx) {
        return;
    }
    crate::props::proc_checks::c14_mcp(ctx);
}

fn replay(name: &str, case: &Value) -> Option<Verdict> {
    match name {
        "arbitrary_lists" => Some(replay_case::<Case, _>(case, check).unwrap_or_else(Verdict::Fail)),
        "ledger_dsl_json_reports" => Some(replay_case::<GenLedger, _>(case, check_report).unwrap_or_else(Verdict::Fail)),
        "ledger_dsl_json_reports_fx" => Some(replay_case::<FxReportCase, _>(case, check_report_fx).unwrap_or_else(Verdict::Fail)),
        other => crate::props::proc_checks::replay(other, case),
    }
}
