//! C07 — tax-year assignment and the single-year filter.

use crate::led::Op;
use crate::lgen::{self, GenCfg, GenLedger, SplitMode};
use crate::model::{self, NoFx};
use crate::props::PropDef;
use crate::rat::Rat;
use crate::runner::{replay_case, Ctx, Obs, Tier, Verdict};
use crate::tool::{self, Outcome};
use cgt_core::{CgtError, Config, TaxPeriod};
use chrono::{Datelike, NaiveDate};
use proptest::prelude::*;
use rust_decimal::Decimal;
use serde::{Deserialize, Serialize};
use serde_json::Value;

pub fn def() -> PropDef {
    PropDef { id: "C07", run, replay, assumptions: &["explain_matching's own year derivation is exercised by the C20/C07 process stratum"] }
}

// ---------- (i) exhaustive date -> tax year ----------

#[derive(Clone, Debug, Serialize, Deserialize)]
pub struct YearBlock {
    pub year: i32,
}

pub fn check_dates(b: &YearBlock, obs: &mut Obs) -> Verdict {
    obs.hash = b.year as u64;
    obs.nontrivial = true;
    let mut day = NaiveDate::from_ymd_opt(b.year, 1, 1).expect("date");
    let mut n = 0u32;
    while day.year() == b.year {
        let (m, d) = (day.month(), day.day());
        // independent derivation
        let start = if m > 4 || (m == 4 && d >= 6) { b.year } else { b.year - 1 };
        let got = tool::guarded(|| TaxPeriod::from_date(day));
        let got = match got {
            Ok(g) => g,
            Err(p) => return Verdict::fail(format!("TaxPeriod::from_date({day}) panicked: {}", p.msg)),
        };
        if (1900..=2100).contains(&start) {
            match got {
                Ok(p) => {
                    if p.start_year() as i32 != start {
                        vfail!("{day}: reported tax year {} but 6-April rule gives {start}", p.start_year());
                    }
                    if p.end_year() as i32 != start + 1 {
                        vfail!("{day}: end year {}", p.end_year());
                    }
                    let s = p.to_string();
                    let want = format!("{}/{:02}", start, (start + 1) % 100);
                    if s != want {
                        vfail!("{day}: tax year rendered '{s}', expected '{want}'");
                    }
                    if p.start_date() != NaiveDate::from_ymd_opt(start, 4, 6) || p.end_date() != NaiveDate::from_ymd_opt(start + 1, 4, 5) {
                        vfail!("{day}: period bounds {:?}..{:?}", p.start_date(), p.end_date());
                    }
                }
                Err(e) => vfail!("{day}: inside 1900-04-06..2101-04-05 but from_date failed: {e}"),
            }
        } else if let Ok(p) = &got {
            // outside 1900..2100 the statement promises nothing; a wider range is fine as long as
            // the date still lands in the tax year the 6 April rule gives
            if p.start_year() as i32 != start {
                vfail!("{day}: tax year {} but 6 April rule gives {start}", p.start_year());
            }
        }
        n += 1;
        day = day.succ_opt().expect("succ");
    }
    obs.class(&format!("days_{n}"));
    if obs.sample.is_none() {
        obs.sample = Some(serde_json::json!({"calendar_year": b.year, "dates_checked": n}));
    }
    Verdict::Pass
}

// ---------- (ii) ledgers x year filters ----------

#[derive(Clone, Debug, Serialize, Deserialize)]
pub struct Case {
    pub gl: GenLedger,
    pub embedded: bool,
}

const RULE: &str = "ledgers with disposals biased to 5/6 April anchors over 1-10 tax years x every year filter in [first-2, last+2] (all-years config) or x filters around the embedded table 2014-2025; non-trivial = a disposal on 5 or 6 April, or a filter selecting a year with no disposals, or a 30-day match crossing the year boundary; distinct by DSL hash";

fn strat_any(t: Tier) -> BoxedStrategy<Case> {
    let cfg = GenCfg::basic().secs(2).days(3, t.pick(16, 30)).splits(SplitMode::Terminating).dividends(true).years(1901, 2098);
    lgen::ledger_strategy(cfg).prop_map(|gl| Case { gl, embedded: false }).boxed()
}
fn strat_edges(t: Tier) -> BoxedStrategy<Case> {
    // first and last supported tax years
    let cfg = GenCfg::basic().secs(2).days(3, t.pick(12, 20)).dividends(true);
    prop_oneof![
        lgen::ledger_strategy(cfg.years(1900, 1901)),
        lgen::ledger_strategy(cfg.years(2099, 2100)),
    ]
    .prop_map(|gl| Case { gl, embedded: false })
    .boxed()
}
fn strat_embedded(t: Tier) -> BoxedStrategy<Case> {
    let cfg = GenCfg::basic().secs(2).days(3, t.pick(16, 30)).dividends(true).years(2012, 2025);
    lgen::ledger_strategy(cfg).prop_map(|gl| Case { gl, embedded: true }).boxed()
}

pub fn check(c: &Case, obs: &mut Obs) -> Verdict {
    let ledger = &c.gl.ledger;
    if lgen::has_excluded_placement(ledger) {
        obs.excluded += 1;
        return Verdict::Pass;
    }
    obs.hash = crate::led::hash_str(&format!("{}#{}", crate::led::to_dsl(ledger), c.embedded));
    if obs.sample.is_none() {
        obs.sample = Some(tool::sample_of(ledger));
    }
    let cfg = if c.embedded { Config::embedded().unwrap_or_default() } else { tool::all_years_config() };
    let sale_years: std::collections::BTreeSet<i32> =
        ledger.iter().filter(|t| matches!(t.op, Op::Sell { .. })).map(|t| model::tax_year_of(t.date)).collect();
    let all = tool::calc_with(ledger, None, None, &cfg);
    let all = match all {
        Outcome::Ok(r) => Some(r),
        Outcome::Err(CgtError::UnsupportedExemptionYear(y)) if c.embedded && sale_years.contains(&(y as i32)) && !cfg.exemptions.contains_key(&y) => {
            obs.class("all_years_report_needs_unconfigured_year");
            None
        }
        Outcome::Err(e) => {
            obs.class("tool_rejected");
            let _ = e;
            return Verdict::Pass;
        }
        Outcome::Panic(p) => return Verdict::fail(format!("calculate panicked: {} at {}", p.msg, p.loc)),
    };
    let mut on_boundary = false;
    let mut crosses = false;
    if let Some(all) = &all {
        // every disposal in exactly one year, the right one; years ascending
        let mut prev = None;
        let mut seen = std::collections::BTreeSet::new();
        for y in &all.tax_years {
            let sy = y.period.start_year() as i32;
            if let Some(p) = prev {
                if p >= sy {
                    vfail!("tax years not ascending: {p} then {sy}");
                }
            }
            prev = Some(sy);
            let lo = NaiveDate::from_ymd_opt(sy, 4, 6).expect("d");
            let hi = NaiveDate::from_ymd_opt(sy + 1, 4, 5).expect("d");
            for d in &y.disposals {
                if d.date < lo || d.date > hi {
                    vfail!("disposal {} {} reported in tax year {sy}/{:02}", d.ticker, d.date, (sy + 1) % 100);
                }
                if !seen.insert((d.date, d.ticker.clone())) {
                    vfail!("disposal {} {} reported twice", d.ticker, d.date);
                }
                if (d.date.month(), d.date.day()) == (4, 5) || (d.date.month(), d.date.day()) == (4, 6) {
                    on_boundary = true;
                }
                for m in &d.matches {
                    if let Some(a) = m.acquisition_date {
                        if model::tax_year_of(a) != sy {
                            crosses = true;
                        }
                    }
                }
            }
        }
        let expected: std::collections::BTreeSet<(NaiveDate, String)> = model::aggregate(ledger, &NoFx)
            .map(|a| a.iter().flat_map(|(k, v)| v.iter().filter(|d| d.s.is_pos()).map(move |d| (d.date, k.clone()))).collect())
            .unwrap_or_default();
        if seen != expected {
            vfail!("disposals reported {:?} but sale days are {:?}", seen, expected);
        }
    }
    // year filters
    let (first, last) = match (sale_years.iter().next(), sale_years.iter().next_back()) {
        (Some(a), Some(b)) => (*a, *b),
        _ => {
            let y = ledger.first().map(|t| model::tax_year_of(t.date)).unwrap_or(2020);
            (y, y)
        }
    };
    let mut empty_year_filter = false;
    for y in (first - 2)..=(last + 2) {
        let one = tool::calc_with(ledger, Some(y), None, &cfg);
        let in_range = (1900..=2100).contains(&y);
        let configured = in_range && cfg.exemptions.contains_key(&(y as u16));
        match one {
            Outcome::Panic(p) => return Verdict::fail(format!("calculate(year={y}) panicked: {} at {}", p.msg, p.loc)),
            Outcome::Err(e) => {
                if configured {
                    return Verdict::fail(format!("year filter {y} (configured, in range) failed: {e}\n{}", crate::led::to_dsl(ledger)));
                }
                obs.class("filter_on_unconfigured_or_out_of_range_year_errors");
            }
            Outcome::Ok(r) => {
                if !in_range {
                    // outside the supported range nothing is promised either way
                    obs.class("filter_on_out_of_range_year_answered");
                    continue;
                }
                if !configured {
                    return Verdict::fail(format!("year filter {y} has no configured exemption but a report was produced"));
                }
                if r.tax_years.len() != 1 || r.tax_years[0].period.start_year() as i32 != y {
                    vfail!("year filter {y}: report lists {:?}", r.tax_years.iter().map(|t| t.period.start_year()).collect::<Vec<_>>());
                }
                let one_y = &r.tax_years[0];
                if let Some(all) = &all {
                    match all.tax_years.iter().find(|t| t.period.start_year() as i32 == y) {
                        Some(ay) => {
                            if ay != one_y {
                                // locate the difference for the message
                                let mut o2 = Obs::default();
                                let mut a1 = all.clone();
                                a1.tax_years.retain(|t| t.period.start_year() as i32 == y);
                                let why = tool::reports_equivalent(&a1, &r, &mut o2).err().unwrap_or_else(|| "differs beyond tolerance-free equality".into());
                                return Verdict::fail(format!("year filter {y}: summary differs from the all-years entry: {why}\n{}", crate::led::to_dsl(ledger)));
                            }
                        }
                        None => {
                            empty_year_filter = true;
                            if !one_y.disposals.is_empty() || !one_y.total_gain.is_zero() || !one_y.total_loss.is_zero() || !one_y.net_gain.is_zero() {
                                vfail!("year filter {y}: year absent from all-years report but filtered report has disposals/totals");
                            }
                        }
                    }
                    if all.holdings != r.holdings {
                        vfail!("year filter {y}: holdings differ from the all-years report: {:?} vs {:?}", r.holdings, all.holdings);
                    }
                }
                // the filtered year's disposals are exactly that year's sale days
                for d in &one_y.disposals {
                    if model::tax_year_of(d.date) != y {
                        vfail!("year filter {y}: contains disposal {} {}", d.ticker, d.date);
                    }
                }
                let want = ledger.iter().filter(|t| matches!(t.op, Op::Sell { .. }) && model::tax_year_of(t.date) == y).map(|t| (t.date, t.ticker.clone())).collect::<std::collections::BTreeSet<_>>();
                let got = one_y.disposals.iter().map(|d| (d.date, d.ticker.clone())).collect::<std::collections::BTreeSet<_>>();
                if want != got {
                    vfail!("year filter {y}: disposals {:?} but that year's sale days are {:?}", got, want);
                }
                // dividends of that year
                let (mut di, mut dt) = (Rat::zero(), Rat::zero());
                for t in ledger.iter() {
                    if let Op::Div { total, tax } = &t.op {
                        if model::tax_year_of(t.date) == y {
                            di += Rat::from_dec(total.a);
                            dt += Rat::from_dec(tax.a);
                        }
                    }
                }
                if Rat::from_dec(one_y.dividend_income) != di || Rat::from_dec(one_y.dividend_tax_paid) != dt {
                    vfail!("year filter {y}: dividend totals {} / {} but that year's lines sum to {di} / {dt}", one_y.dividend_income, one_y.dividend_tax_paid);
                }
            }
        }
    }
    obs.nontrivial = on_boundary || empty_year_filter || crosses;
    obs.class_if(on_boundary, "disposal_on_5_or_6_April");
    obs.class_if(empty_year_filter, "filter_selects_year_without_disposals");
    obs.class_if(crosses, "30day_match_crosses_tax_year");
    obs.class_if(sale_years.len() >= 3, "3+_tax_years");
    let _ = Decimal::ZERO;
    Verdict::Pass
}

fn run(ctx: &Ctx) {
    let years: Vec<YearBlock> = (1899..=2102).map(|year| YearBlock { year }).collect();
    if !ctx.run_enum("every_calendar_date", "exhaustive: every date 1899-01-01..2102-12-31 through TaxPeriod::from_date vs an independent month/day rule (one case = one calendar year)", years, check_dates) {
        return;
    }
    if !ctx.run_prop("any_years", RULE, ctx.cases(1200, 400_000), strat_any, check) {
        return;
    }
    if !ctx.run_prop("range_edges", RULE, ctx.cases(400, 120_000), strat_edges, check) {
        return;
    }
    if !ctx.run_prop("embedded_table", RULE, ctx.cases(600, 240_000), strat_embedded, check) {
        return;
    }
    crate::props::proc_checks::c07_cli(ctx);
}

fn replay(name: &str, case: &Value) -> Option<Verdict> {
    match name {
        "every_calendar_date" => Some(replay_case::<YearBlock, _>(case, check_dates).unwrap_or_else(Verdict::Fail)),
        "any_years" | "range_edges" | "embedded_table" => Some(replay_case::<Case, _>(case, check).unwrap_or_else(Verdict::Fail)),
        other => crate::props::proc_checks::replay(other, case),
    }
}
