//! C09 — securities are independent; tickers are case-insensitive.

use crate::led::Tx;
use crate::lgen::{self, GenCfg, GenLedger, SplitMode};
use crate::model::{self, NoFx, Quirks};
use crate::props::PropDef;
use crate::rat::Rat;
use crate::runner::{replay_case, Ctx, Obs, Tier, Verdict};
use crate::tool::{self, Outcome};
use cgt_core::TaxReport;
use proptest::prelude::*;
use serde::{Deserialize, Serialize};
use serde_json::Value;
use std::collections::BTreeMap;

pub fn def() -> PropDef {
    PropDef { id: "C09", run, replay, assumptions: &[] }
}

#[derive(Clone, Debug, Serialize, Deserialize)]
pub struct Case {
    pub gl: GenLedger,
    pub case_bits: Vec<u16>,
}

const RULE: &str = "ledgers over 2-5 securities sharing one date axis (same-date collisions are the norm), with splits, asset events, shuffled lines; non-trivial = >=2 securities trade on one date and one of them has a 30-day claim or asset event pending across it; distinct by DSL hash";

fn mk(cfg: GenCfg) -> BoxedStrategy<Case> {
    (lgen::ledger_strategy(cfg), proptest::collection::vec(any::<u16>(), 16)).prop_map(|(gl, case_bits)| Case { gl, case_bits }).boxed()
}
fn strat_plain(t: Tier) -> BoxedStrategy<Case> {
    mk(GenCfg::basic().secs(5).acts(4).days(2, t.pick(12, 24)).dividends(true).shuffle(true))
}
fn strat_split(t: Tier) -> BoxedStrategy<Case> {
    mk(GenCfg::basic().secs(4).acts(4).days(2, t.pick(12, 24)).splits(SplitMode::Terminating).shuffle(true))
}
fn strat_events(t: Tier) -> BoxedStrategy<Case> {
    mk(GenCfg::basic().secs(3).acts(3).days(2, t.pick(10, 20)).splits(SplitMode::Terminating).events(true).dividends(true))
}

fn restrict(r: &TaxReport, tk: &str) -> TaxReport {
    let mut out = r.clone();
    for y in &mut out.tax_years {
        y.disposals.retain(|d| d.ticker == tk);
    }
    out.holdings.retain(|h| h.ticker == tk);
    out
}

fn mixcase(s: &str, bits: u16) -> String {
    s.chars().enumerate().map(|(i, c)| if (bits >> (i % 16)) & 1 == 1 { c.to_ascii_lowercase() } else { c.to_ascii_uppercase() }).collect()
}

pub fn check(c: &Case, obs: &mut Obs) -> Verdict {
    let ledger = &c.gl.ledger;
    if lgen::has_excluded_placement(ledger) {
        obs.excluded += 1;
        return Verdict::Pass;
    }
    obs.hash = crate::led::hash_str(&crate::led::to_dsl(ledger));
    if obs.sample.is_none() {
        obs.sample = Some(tool::sample_of(ledger));
    }
    let all = match tool::calc(ledger) {
        Outcome::Ok(r) => r,
        Outcome::Err(_) => {
            obs.class("tool_rejected");
            return Verdict::Pass;
        }
        Outcome::Panic(p) => return Verdict::fail(format!("calculate panicked: {} at {}", p.msg, p.loc)),
    };
    let mut tickers: Vec<String> = ledger.iter().map(|t| t.ticker.clone()).collect();
    tickers.sort();
    tickers.dedup();
    // non-triviality from the model
    let nontrivial = model::evaluate(ledger, &NoFx, Quirks::default())
        .map(|m| {
            let mut dates: BTreeMap<chrono::NaiveDate, Vec<&str>> = BTreeMap::new();
            for t in ledger.iter().filter(|t| t.is_trade()) {
                let e = dates.entry(t.date).or_default();
                if !e.contains(&t.ticker.as_str()) {
                    e.push(&t.ticker);
                }
            }
            dates.iter().any(|(d, tks)| {
                tks.len() >= 2
                    && tks.iter().any(|tk| {
                        m.secs.get(*tk).map(|s| {
                            s.disposals.iter().any(|x| x.date <= *d && x.legs.iter().any(|l| l.rule == model::Rule::Bnb && l.acq.map(|a| a >= *d).unwrap_or(false)))
                        }).unwrap_or(false)
                            || ledger.iter().any(|e| e.is_event() && e.ticker == **tk && e.date >= *d)
                    })
            })
        })
        .unwrap_or(false);
    obs.nontrivial = nontrivial && tickers.len() >= 2;
    obs.class(&format!("securities_{}", tickers.len().min(6)));
    // per-security projections
    let mut sum_gain: BTreeMap<u16, (Rat, Rat, Rat, usize, Rat, Rat)> = BTreeMap::new();
    let mut f17 = false;
    for tk in &tickers {
        let only: Vec<Tx> = ledger.iter().filter(|t| &t.ticker == tk).cloned().collect();
        let solo = match tool::calc(&only) {
            Outcome::Ok(r) => r,
            o => return Verdict::fail(format!("ledger accepted as a whole but the lines of {tk} alone give {}\n{}", o.describe(), crate::led::to_dsl(ledger))),
        };
        let proj = restrict(&all, tk);
        // compare disposals and holding
        let a: Vec<_> = proj.tax_years.iter().flat_map(|y| y.disposals.iter()).collect();
        let b: Vec<_> = solo.tax_years.iter().flat_map(|y| y.disposals.iter()).collect();
        if a.len() != b.len() {
            return Verdict::fail(format!("{tk}: {} disposals within the combined ledger, {} alone\n{}", a.len(), b.len(), crate::led::to_dsl(ledger)));
        }
        for (da, db) in a.iter().zip(b.iter()) {
            if let Err(e) = tool::disposals_equivalent(da, db, obs) {
                // F17: removing the other securities' lines can make this security's same-day
                // sales adjacent, which changes how the day's gain is split over the legs
                let mut scratch = Obs::default();
                if (tool::has_nonadjacent_unequal_sells(ledger) || tool::has_nonadjacent_unequal_sells(&only)) && tool::disposals_equivalent_mode(da, db, &mut scratch, true).is_ok() {
                    f17 = true;
                    continue;
                }
                return Verdict::fail(format!("{tk}: disposal differs between combined ledger and the security alone: {e}\n{}", crate::led::to_dsl(ledger)));
            }
        }
        let ha = tool::holdings_map(&proj);
        let hb = tool::holdings_map(&solo);
        if ha.len() != hb.len() {
            return Verdict::fail(format!("{tk}: holding present in one only: {ha:?} vs {hb:?}"));
        }
        for (k, (q, cst)) in &ha {
            let Some((q2, c2)) = hb.get(k) else { return Verdict::fail(format!("{tk}: holding missing alone")) };
            if !tool::dec_qty_close(*q, *q2, obs) || !tool::dec_money_close(*cst, *c2, obs) {
                return Verdict::fail(format!("{tk}: holding {q} @ {cst} in combined ledger vs {q2} @ {c2} alone\n{}", crate::led::to_dsl(ledger)));
            }
        }
        for y in &solo.tax_years {
            let e = sum_gain.entry(y.period.start_year()).or_insert((Rat::zero(), Rat::zero(), Rat::zero(), 0, Rat::zero(), Rat::zero()));
            e.0 += Rat::from_dec(y.total_gain);
            e.1 += Rat::from_dec(y.total_loss);
            e.2 += Rat::from_dec(y.gross_proceeds());
            e.3 += y.disposal_count();
            e.4 += Rat::from_dec(y.dividend_income);
            e.5 += Rat::from_dec(y.dividend_tax_paid);
        }
    }
    // year totals add up (dividend totals only for years the combined report lists)
    for y in &all.tax_years {
        let sy = y.period.start_year();
        let z = (Rat::zero(), Rat::zero(), Rat::zero(), 0usize, Rat::zero(), Rat::zero());
        let e = sum_gain.get(&sy).unwrap_or(&z);
        if !tool::money_close(&e.0, y.total_gain, obs) || !tool::money_close(&e.1, y.total_loss, obs) {
            return Verdict::fail(format!("{sy}: total gain/loss {} / {} but per-security reports add up to {} / {}", y.total_gain, y.total_loss, e.0, e.1));
        }
        if !tool::money_close(&e.2, y.gross_proceeds(), obs) || e.3 != y.disposal_count() {
            return Verdict::fail(format!("{sy}: proceeds/count {} / {} but per-security reports add up to {} / {}", y.gross_proceeds(), y.disposal_count(), e.2, e.3));
        }
    }
    // dividends: combined total per listed year = sum over securities' DIVIDEND lines (input)
    for y in &all.tax_years {
        let sy = y.period.start_year() as i32;
        let mut di = Rat::zero();
        for t in ledger.iter() {
            if let crate::led::Op::Div { total, .. } = &t.op {
                if model::tax_year_of(t.date) == sy {
                    di += Rat::from_dec(total.a);
                }
            }
        }
        if !tool::money_close(&di, y.dividend_income, obs) {
            return Verdict::fail(format!("{sy}: dividend income {} but lines add up to {di}", y.dividend_income));
        }
    }
    // ticker case: DSL and JSON with per-line random case
    let mut dsl_lines = vec![];
    let mut json_items = vec![];
    for (i, t) in ledger.iter().enumerate() {
        let bits = c.case_bits[i % c.case_bits.len()];
        let mut t2 = t.clone();
        t2.ticker = mixcase(&t.ticker, bits);
        dsl_lines.push(crate::led::tx_to_dsl(&t2));
        let mut v = serde_json::to_value(crate::led::to_core_tx(t)).unwrap_or(Value::Null);
        if let Some(o) = v.as_object_mut() {
            o.insert("ticker".into(), Value::String(t2.ticker.clone()));
        }
        json_items.push(v);
    }
    let text = dsl_lines.join("\n");
    let parsed = match tool::guarded(|| cgt_core::parser::parse_file(&text)) {
        Ok(Ok(p)) => p,
        Ok(Err(e)) => return Verdict::fail(format!("mixed-case tickers do not parse: {e}\n{text}")),
        Err(p) => return Verdict::fail(format!("parser panicked: {}", p.msg)),
    };
    let from_json: Vec<cgt_core::Transaction> = match tool::guarded(|| serde_json::from_value(Value::Array(json_items.clone()))) {
        Ok(Ok(p)) => p,
        Ok(Err(e)) => return Verdict::fail(format!("mixed-case tickers in JSON rejected: {e}")),
        Err(p) => return Verdict::fail(format!("JSON reader panicked: {}", p.msg)),
    };
    let want = crate::led::to_core(ledger);
    for (name, got) in [("DSL", &parsed), ("JSON", &from_json)] {
        if got.len() != want.len() {
            return Verdict::fail(format!("{name}: {} transactions read, {} written", got.len(), want.len()));
        }
        for (g, w) in got.iter().zip(want.iter()) {
            if !g.ticker.eq_ignore_ascii_case(&w.ticker) {
                return Verdict::fail(format!("{name}: ticker read as '{}', expected '{}'", g.ticker, w.ticker.to_uppercase()));
            }
        }
        match tool::calc(&crate::led::from_core(got)) {
            Outcome::Ok(r) => {
                if let Err(e) = tool::reports_equivalent(&all, &r, obs) {
                    return Verdict::fail(format!("{name} input with mixed-case tickers gives a different report: {e}\n{text}"));
                }
            }
            o => return Verdict::fail(format!("{name} input with mixed-case tickers: {}", o.describe())),
        }
    }
    if f17 {
        return tool::f17_verdict();
    }
    Verdict::Pass
}

fn run(ctx: &Ctx) {
    if !ctx.run_prop("plain_shuffled", RULE, ctx.cases(1200, 300_000), strat_plain, check) {
        return;
    }
    if !ctx.run_prop("with_splits", RULE, ctx.cases(800, 300_000), strat_split, check) {
        return;
    }
    ctx.run_prop("with_asset_events", RULE, ctx.cases(600, 180_000), strat_events, check);
}

fn replay(name: &str, case: &Value) -> Option<Verdict> {
    match name {
        "plain_shuffled" | "with_splits" | "with_asset_events" => Some(replay_case::<Case, _>(case, check).unwrap_or_else(Verdict::Fail)),
        _ => None,
    }
}
