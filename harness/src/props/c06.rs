//! C06 — the report depends only on the set of transactions: line order, file split and
//! fill splitting do not matter.

use crate::led::{Op, Tx};
use crate::lgen::{self, GenCfg, GenLedger, SplitMode};
use crate::model::{self, NoFx, Quirks};
use crate::props::PropDef;
use crate::runner::{replay_case, Ctx, Obs, Tier, Verdict};
use crate::tool::{self, Outcome};
use proptest::prelude::*;
use serde::{Deserialize, Serialize};
use serde_json::Value;

pub fn def() -> PropDef {
    PropDef { id: "C06", run, replay, assumptions: &["file split is checked in-process with the same join(\"\\n\") + parse_file the CLI uses; the CLI stratum (process level) repeats it with real files"] }
}

#[derive(Clone, Debug, Serialize, Deserialize)]
pub struct Case {
    pub base: GenLedger,
    pub perm: Vec<u16>,
    pub files: Vec<u8>,
    pub nfiles: u8,
    pub fill_idx: u16,
    pub fill_n: u8,
    pub fill_salt: u16,
    pub fill_pos: Vec<u16>,
    pub trailing_newline: bool,
}

const RULE: &str = "accepted ledger L x (random permutation of its lines, random assignment of the lines to 1..4 files joined as the CLI does, one BUY/SELL broken into 2-3 same-day fills with equal quantity, consideration and fees inserted at random positions); non-trivial = the variant reorders two same-day lines of one security, or cuts a file inside a day, or splits a lot that is 30-day claimed; distinct by hash of base + variant DSL";

fn mk(cfg: GenCfg) -> BoxedStrategy<Case> {
    (
        lgen::ledger_strategy(cfg),
        proptest::collection::vec(any::<u16>(), 48),
        proptest::collection::vec(any::<u8>(), 48),
        1u8..=4,
        any::<u16>(),
        1u8..=3,
        any::<u16>(),
        proptest::collection::vec(any::<u16>(), 3),
        any::<bool>(),
    )
        .prop_map(|(base, perm, files, nfiles, fill_idx, fill_n, fill_salt, fill_pos, trailing_newline)| Case {
            base,
            perm,
            files,
            nfiles,
            fill_idx,
            fill_n,
            fill_salt,
            fill_pos,
            trailing_newline,
        })
        .boxed()
}
fn strat_plain(t: Tier) -> BoxedStrategy<Case> {
    mk(GenCfg::basic().secs(3).days(2, t.pick(12, 24)).dividends(true))
}
fn strat_split(t: Tier) -> BoxedStrategy<Case> {
    mk(GenCfg::basic().secs(3).days(2, t.pick(12, 24)).splits(SplitMode::Terminating))
}
fn strat_same_day(t: Tier) -> BoxedStrategy<Case> {
    mk(GenCfg::basic().secs(2).days(2, t.pick(10, 20)).splits(SplitMode::Terminating).events(true).same_day(true))
}
fn strat_events(t: Tier) -> BoxedStrategy<Case> {
    mk(GenCfg::basic().secs(2).days(2, t.pick(10, 20)).splits(SplitMode::Terminating).events(true).dividends(true))
}

fn permute(l: &[Tx], perm: &[u16]) -> Vec<Tx> {
    if perm.is_empty() {
        return l.to_vec();
    }
    let mut keyed: Vec<(u16, usize)> = (0..l.len()).map(|i| (perm[i % perm.len()].wrapping_add(((i / perm.len()) as u16).wrapping_mul(7919)), i)).collect();
    keyed.sort();
    keyed.into_iter().map(|(_, i)| l[i].clone()).collect()
}

pub struct Variant {
    pub fills: Vec<Tx>,
    pub permuted: Vec<Tx>,
    pub file_texts: Vec<String>,
    pub fill_target: Option<Tx>,
}

pub fn build_variant(c: &Case) -> Variant {
    let base = &c.base.ledger;
    // (iii) fill splitting on the canonical ledger
    let mut fills = base.clone();
    let mut fill_target = None;
    let trades: Vec<usize> = base.iter().enumerate().filter(|(_, t)| t.is_trade()).map(|(i, _)| i).collect();
    if !trades.is_empty() && c.fill_n >= 2 {
        let i = trades[(c.fill_idx as usize * trades.len()) >> 16];
        let t = base[i].clone();
        let (q, p, f, is_buy) = match &t.op {
            Op::Buy { q, p, f } => (*q, p.clone(), f.clone(), true),
            Op::Sell { q, p, f } => (*q, p.clone(), f.clone(), false),
            _ => unreachable!(),
        };
        let parts = lgen::split_fills(q, p.a, f.a, c.fill_n as usize, c.fill_salt);
        if parts.len() >= 2 {
            fill_target = Some(t.clone());
            fills.remove(i);
            for (k, (fq, fp, ff)) in parts.into_iter().enumerate() {
                let m = |a| crate::led::Money { a, c: p.c.clone() };
                let mf = |a| crate::led::Money { a, c: f.c.clone() };
                let op = if is_buy { Op::Buy { q: fq, p: m(fp), f: mf(ff) } } else { Op::Sell { q: fq, p: m(fp), f: mf(ff) } };
                let pos = (c.fill_pos[k % c.fill_pos.len()] as usize * (fills.len() + 1)) >> 16;
                fills.insert(pos, Tx { date: t.date, ticker: t.ticker.clone(), op });
            }
        }
    }
    // (i) permutation
    let permuted = permute(&fills, &c.perm);
    // (ii) partition into files, preserving order inside each file
    let n = c.nfiles.max(1) as usize;
    let mut files: Vec<Vec<String>> = vec![vec![]; n];
    for (i, t) in permuted.iter().enumerate() {
        let f = (c.files[i % c.files.len()] as usize) % n;
        files[f].push(crate::led::tx_to_dsl(t));
    }
    let file_texts: Vec<String> = files
        .into_iter()
        .map(|lines| {
            let mut s = lines.join("\n");
            if c.trailing_newline && !s.is_empty() {
                s.push('\n');
            }
            s
        })
        .collect();
    Variant { fills, permuted, file_texts, fill_target }
}

pub fn check(c: &Case, obs: &mut Obs) -> Verdict {
    check_inner(c, obs, false)
}

/// same relation on ledgers that put a SPLIT/UNSPLIT/CAPRETURN/ACCUMULATION on a date that also
/// has trades of the security: whatever such a placement means, it must not depend on line order
pub fn check_same_day(c: &Case, obs: &mut Obs) -> Verdict {
    let v = check_inner(c, obs, true);
    obs.class_if(lgen::has_excluded_placement(&c.base.ledger), "split_or_event_on_a_trade_day");
    obs.nontrivial = obs.nontrivial && lgen::has_excluded_placement(&c.base.ledger);
    v
}

fn check_inner(c: &Case, obs: &mut Obs, allow_same_day: bool) -> Verdict {
    let base = &c.base.ledger;
    if !allow_same_day && lgen::has_excluded_placement(base) {
        obs.excluded += 1;
        return Verdict::Pass;
    }
    let v = build_variant(c);
    let joined = v.file_texts.join("\n");
    obs.hash = crate::led::hash_str(&format!("{}##{}", crate::led::to_dsl(base), joined));
    if obs.sample.is_none() {
        obs.sample = Some(serde_json::json!({"base": tool::sample_of(base), "files": v.file_texts}));
    }
    let r0 = tool::calc(base);
    // non-triviality
    let reorders_same_day = {
        let mut found = false;
        'o: for (i, a) in v.permuted.iter().enumerate() {
            for b in v.permuted.iter().skip(i + 1) {
                if a.date == b.date && a.ticker == b.ticker && a != b {
                    // relative order in the fills ledger
                    let ia = v.fills.iter().position(|x| x == a);
                    let ib = v.fills.iter().position(|x| x == b);
                    if let (Some(ia), Some(ib)) = (ia, ib) {
                        if ia > ib {
                            found = true;
                            break 'o;
                        }
                    }
                }
            }
        }
        found
    };
    let cut_inside_day = v.file_texts.len() > 1 && {
        // two lines of the same date live in different files
        let mut seen: std::collections::BTreeMap<String, usize> = std::collections::BTreeMap::new();
        let mut cut = false;
        for (fi, text) in v.file_texts.iter().enumerate() {
            for line in text.lines() {
                let date = line.split(' ').next().unwrap_or("").to_string();
                if let Some(prev) = seen.get(&date) {
                    if *prev != fi {
                        cut = true;
                    }
                }
                seen.insert(date, fi);
            }
        }
        cut
    };
    let splits_claimed_lot = match (&v.fill_target, model::evaluate(base, &NoFx, Quirks::default())) {
        (Some(t), Ok(m)) if matches!(t.op, Op::Buy { .. }) => m
            .secs
            .get(&t.ticker)
            .map(|s| s.disposals.iter().any(|d| d.legs.iter().any(|l| l.rule == model::Rule::Bnb && l.acq == Some(t.date))))
            .unwrap_or(false),
        _ => false,
    };
    obs.nontrivial = reorders_same_day || cut_inside_day || splits_claimed_lot;
    obs.class_if(reorders_same_day, "reorders_same_day_same_security_lines");
    obs.class_if(cut_inside_day, "file_cut_inside_a_day");
    obs.class_if(splits_claimed_lot, "fill_split_of_30day_claimed_lot");
    obs.class_if(v.fill_target.is_some(), "has_fill_split");
    obs.class(&format!("files_{}", v.file_texts.len()));

    // variant A: permuted + fill-split, through the library
    let ra = tool::calc(&v.permuted);
    // variant B: the same lines distributed over files, joined as the CLI does, parsed
    let parsed = match tool::guarded(|| cgt_core::parser::parse_file(&joined)) {
        Ok(Ok(p)) => p,
        Ok(Err(e)) => return Verdict::fail(format!("joined files do not parse: {e}\n{joined}")),
        Err(p) => return Verdict::fail(format!("parser panicked: {} at {}", p.msg, p.loc)),
    };
    let rb = tool::calc(&crate::led::from_core(&parsed));
    let parsed_l = crate::led::from_core(&parsed);
    let mut f17 = false;
    for (name, rv, lv) in [("permuted/fill-split lines", &ra, &v.permuted), ("lines distributed over files", &rb, &parsed_l)] {
        match (&r0, rv) {
            (Outcome::Ok(a), Outcome::Ok(b)) => match tool::equivalent_or_f17(a, base, b, lv, obs) {
                tool::Equiv::Same => {}
                tool::Equiv::F17 => f17 = true,
                tool::Equiv::Different(e) => {
                    return Verdict::fail(format!(
                        "report changes with {name}: {e}\n--- base ---\n{}\n--- variant ---\n{}",
                        crate::led::to_dsl(base),
                        joined
                    ));
                }
            },
            (Outcome::Err(_), Outcome::Err(_)) => {
                obs.class("both_rejected");
            }
            (Outcome::Panic(p), _) | (_, Outcome::Panic(p)) => {
                return Verdict::fail(format!("calculate panicked: {} at {}", p.msg, p.loc));
            }
            (a, b) => {
                return Verdict::fail(format!(
                    "acceptance changes with {name}: base {} vs variant {}\n--- base ---\n{}\n--- variant ---\n{}",
                    a.describe(),
                    b.describe(),
                    crate::led::to_dsl(base),
                    joined
                ));
            }
        }
    }
    if f17 {
        return tool::f17_verdict();
    }
    Verdict::Pass
}

fn run(ctx: &Ctx) {
    if !ctx.run_prop("plain", RULE, ctx.cases(1500, 240_000), strat_plain, check) {
        return;
    }
    if !ctx.run_prop("with_splits", RULE, ctx.cases(1000, 240_000), strat_split, check) {
        return;
    }
    if !ctx.run_prop("with_asset_events", RULE, ctx.cases(800, 160_000), strat_events, check) {
        return;
    }
    if !ctx.run_prop("same_day_split_or_event", RULE, ctx.cases(800, 160_000), strat_same_day, check_same_day) {
        return;
    }
    crate::props::proc_checks::c06_cli(ctx);
}

fn replay(name: &str, case: &Value) -> Option<Verdict> {
    match name {
        "plain" | "with_splits" | "with_asset_events" => Some(replay_case::<Case, _>(case, check).unwrap_or_else(Verdict::Fail)),
        "same_day_split_or_event" => Some(replay_case::<Case, _>(case, check_same_day).unwrap_or_else(Verdict::Fail)),
        other => crate::props::proc_checks::replay(other, case),
    }
}
