//! C04 — report arithmetic recomputed from the input lines, over exemption configurations.

use crate::led::{d as mkdate, Money, Op, Tx};
use crate::lgen::{self, GenCfg, GenLedger, SplitMode};
use crate::model::{self, NoFx};
use crate::props::PropDef;
use crate::rat::Rat;
use crate::runner::{replay_case, Ctx, Obs, Tier, Verdict};
use crate::tool::{self, Outcome};
use cgt_core::{CgtError, Config};
use chrono::Duration;
use proptest::prelude::*;
use rust_decimal::Decimal;
use serde::{Deserialize, Serialize};
use serde_json::Value;
use std::collections::{BTreeMap, BTreeSet};

pub fn def() -> PropDef {
    PropDef { id: "C04", run, replay, assumptions: &["exemption configurations are exercised as Config values (embedded table, replaced/added years, one needed year missing); the file-based override path is exercised by the CLI stratum"] }
}

#[derive(Clone, Debug, Serialize, Deserialize)]
pub struct Case {
    pub gl: GenLedger,
    /// 0 all years configured; 1 only needed years; 2 one needed year missing; 3 embedded + overrides
    pub cfg_mode: u8,
    pub salt: u16,
}

const RULE: &str = "ledger strata (multi-year, dividends, multi-fill sales, zero-result stratum) x exemption config mode; non-trivial = a tax year with both a gain and a loss disposal, or a multi-fill sale at differing prices, or a non-embedded exemption value, or the missing-year error path; distinct by DSL hash + config mode";

fn strat_years(t: Tier) -> BoxedStrategy<Case> {
    let cfg = GenCfg::basic().secs(3).days(3, t.pick(16, 30)).splits(SplitMode::Terminating).dividends(true).years(2013, 2022);
    (lgen::ledger_strategy(cfg), 0u8..4, any::<u16>()).prop_map(|(gl, cfg_mode, salt)| Case { gl, cfg_mode, salt }).boxed()
}
fn strat_wide(t: Tier) -> BoxedStrategy<Case> {
    // shuffled lines: several sales of one security on a day end up separated by other
    // securities' lines, which must still give one disposal per (security, day)
    let cfg = GenCfg::basic().secs(3).days(3, t.pick(16, 30)).events(true).dividends(true).shuffle(true);
    (lgen::ledger_strategy(cfg), 0u8..3, any::<u16>()).prop_map(|(gl, cfg_mode, salt)| Case { gl, cfg_mode, salt }).boxed()
}

/// zero-result and mixed gain/loss disposals in one tax year
fn strat_zero(_t: Tier) -> BoxedStrategy<Case> {
    (
        proptest::collection::vec((1u16..500, 1u16..2000, 0u8..3, 0u8..20, any::<bool>()), 1..6),
        1990i32..2090,
        0u8..4,
        any::<u16>(),
    )
        .prop_map(|(secs, year, cfg_mode, salt)| {
            let mut ledger = vec![];
            let start = mkdate(year, 4, 6);
            for (i, (q, p, mode, off, fee)) in secs.iter().enumerate() {
                let tk = lgen::TICKERS[i % 12];
                let q = Decimal::from(*q);
                let p = Decimal::new(*p as i64, 2);
                ledger.push(Tx::buy(start + Duration::days(i as i64), tk, q, p, Decimal::ZERO));
                let sp = match mode {
                    0 => p,
                    1 => p * Decimal::new(5, 1),
                    _ => p * Decimal::from(2),
                };
                let f = if *fee && *mode != 0 { Decimal::new(125, 2) } else { Decimal::ZERO };
                ledger.push(Tx::sell(start + Duration::days(40 + *off as i64), tk, q, sp, f));
                if i % 2 == 0 {
                    ledger.push(Tx {
                        date: start + Duration::days(50 + i as i64),
                        ticker: tk.into(),
                        op: Op::Div { total: Money::gbp(Decimal::new(1234 + i as i64, 2)), tax: Money::gbp(Decimal::new(i as i64 * 7, 2)) },
                    });
                }
            }
            Case { gl: GenLedger { ledger, excluded: 0 }, cfg_mode, salt }
        })
        .boxed()
}

fn config_for(mode: u8, salt: u16, needed: &BTreeSet<i32>) -> (Config, Option<BTreeSet<i32>>, bool) {
    // returns (config, years missing among needed, whether values are non-embedded)
    let val = |y: i32| Decimal::from(500 + ((y as i64 * 31 + salt as i64) % 200) * 50);
    match mode {
        1 => {
            let mut c = Config::default();
            for y in needed {
                c.exemptions.insert(*y as u16, val(*y));
            }
            (c, None, true)
        }
        2 if !needed.is_empty() => {
            let mut c = Config::default();
            let skip = *needed.iter().nth((salt as usize) % needed.len()).expect("nth");
            for y in needed {
                if *y != skip {
                    c.exemptions.insert(*y as u16, val(*y));
                }
            }
            (c, Some([skip].into_iter().collect()), true)
        }
        3 => {
            let mut c = Config::embedded().unwrap_or_default();
            let mut missing = BTreeSet::new();
            for y in needed {
                if salt % 3 == 0 || !c.exemptions.contains_key(&(*y as u16)) {
                    if salt % 5 == 0 && !c.exemptions.contains_key(&(*y as u16)) {
                        missing.insert(*y);
                    } else {
                        c.exemptions.insert(*y as u16, val(*y));
                    }
                }
            }
            (c, if missing.is_empty() { None } else { Some(missing) }, true)
        }
        _ => (tool::all_years_config(), None, false),
    }
}

pub fn check(c: &Case, obs: &mut Obs) -> Verdict {
    let ledger = &c.gl.ledger;
    if lgen::has_excluded_placement(ledger) {
        obs.excluded += 1;
        return Verdict::Pass;
    }
    obs.hash = crate::led::hash_str(&format!("{}#{}#{}", crate::led::to_dsl(ledger), c.cfg_mode, c.salt));
    if obs.sample.is_none() {
        obs.sample = Some(serde_json::json!({"cfg_mode": c.cfg_mode, "ledger": tool::sample_of(ledger)}));
    }
    let agg = match model::aggregate(ledger, &NoFx) {
        Ok(a) => a,
        Err(e) => return Verdict::fail(format!("harness: FX needed {e:?}")),
    };
    // years with a disposal (from the input: any SELL line)
    let needed: BTreeSet<i32> = ledger.iter().filter(|t| matches!(t.op, Op::Sell { .. })).map(|t| model::tax_year_of(t.date)).collect();
    let (cfg, missing, custom) = config_for(c.cfg_mode, c.salt, &needed);
    let out = tool::calc_with(ledger, None, None, &cfg);
    let report = match out {
        Outcome::Ok(r) => r,
        Outcome::Err(CgtError::UnsupportedExemptionYear(y)) => {
            obs.class("missing_year_error");
            obs.nontrivial = true;
            return match &missing {
                Some(m) if m.contains(&(y as i32)) => Verdict::Pass,
                _ => Verdict::fail(format!("UnsupportedExemptionYear({y}) but that year is configured or has no disposal; missing={missing:?}")),
            };
        }
        Outcome::Err(e) => {
            // another obstacle (e.g. refused capital return): outside C04 unless a year is missing
            obs.class("tool_rejected_other");
            let _ = e;
            return Verdict::Pass;
        }
        Outcome::Panic(p) => return Verdict::fail(format!("calculate panicked: {} at {}", p.msg, p.loc)),
    };
    if let Some(m) = &missing {
        return Verdict::fail(format!(
            "report produced although no exemption is configured for tax year(s) {m:?} that have disposals (exempt amounts reported: {:?})",
            report.tax_years.iter().map(|y| (y.period.start_year(), y.exempt_amount)).collect::<Vec<_>>()
        ));
    }
    let mut mixed = false;
    let mut multifill = false;
    let mut years_seen = BTreeSet::new();
    let mut prev_year: Option<u16> = None;
    let json = serde_json::to_value(&report).unwrap_or(Value::Null);
    for (yi, y) in report.tax_years.iter().enumerate() {
        let sy = y.period.start_year() as i32;
        if let Some(p) = prev_year {
            if p >= y.period.start_year() {
                vfail!("tax years not ascending: {p} then {}", y.period.start_year());
            }
        }
        prev_year = Some(y.period.start_year());
        years_seen.insert(sy);
        let mut tg = Rat::zero();
        let mut tl = Rat::zero();
        for d in &y.disposals {
            if model::tax_year_of(d.date) != sy {
                vfail!("disposal {} {} listed under tax year {sy}", d.ticker, d.date);
            }
            let Some(day) = agg.get(&d.ticker).and_then(|v| v.iter().find(|x| x.date == d.date)) else {
                vfail!("disposal {} {} has no input lines", d.ticker, d.date);
            };
            if day.n_sell >= 2 {
                multifill = true;
            }
            if !tool::money_close(&day.gross, d.gross_proceeds, obs) {
                vfail!("{} {}: gross proceeds {} but quantity x price of that day's sales = {}", d.ticker, d.date, d.gross_proceeds, day.gross);
            }
            let net = &day.gross - &day.fees;
            if !tool::money_close(&net, d.proceeds, obs) {
                vfail!("{} {}: net proceeds {} but gross - fees = {}", d.ticker, d.date, d.proceeds, net);
            }
            let legq: Rat = d.matches.iter().map(|m| Rat::from_dec(m.quantity)).sum();
            if !tool::qty_close(&legq, d.quantity, obs) {
                vfail!("{} {}: quantity {} but legs sum to {}", d.ticker, d.date, d.quantity, legq);
            }
            let gains: Rat = d.matches.iter().map(|m| Rat::from_dec(m.gain_or_loss)).sum();
            let costs: Rat = d.matches.iter().map(|m| Rat::from_dec(m.allowable_cost)).sum();
            let expect = &net - &costs;
            if (&gains - &expect).abs() > tool::tol_money() {
                vfail!("{} {}: leg gains sum to {} but net proceeds - leg costs = {}", d.ticker, d.date, gains, expect);
            }
            if !tool::money_close(&gains, d.net_gain_or_loss(), obs) || !tool::money_close(&costs, d.total_allowable_cost(), obs) {
                vfail!("{} {}: derived net_gain_or_loss/total_allowable_cost disagree with legs", d.ticker, d.date);
            }
            if gains.is_pos() {
                tg += &gains;
            } else if gains.is_neg() {
                tl += gains.abs();
            }
        }
        if tg.is_pos() && tl.is_pos() {
            mixed = true;
        }
        if !tool::money_close(&tg, y.total_gain, obs) {
            vfail!("{sy}: total_gain {} but positive disposal results sum to {}", y.total_gain, tg);
        }
        if !tool::money_close(&tl, y.total_loss, obs) {
            vfail!("{sy}: total_loss {} but negative disposal results sum to {}", y.total_loss, tl);
        }
        if !tool::money_close(&(&tg - &tl), y.net_gain, obs) {
            vfail!("{sy}: net_gain {} but total gain - total loss = {}", y.net_gain, &tg - &tl);
        }
        // one disposal per (security, day) with a sale in this tax year, no more, no fewer
        let mut sold_days: BTreeSet<(String, chrono::NaiveDate)> = BTreeSet::new();
        for (tk, days) in &agg {
            for dd in days {
                if dd.n_sell > 0 && model::tax_year_of(dd.date) == sy {
                    sold_days.insert((tk.clone(), dd.date));
                }
            }
        }
        let listed: Vec<(String, chrono::NaiveDate)> = y.disposals.iter().map(|d| (d.ticker.clone(), d.date)).collect();
        let listed_set: BTreeSet<(String, chrono::NaiveDate)> = listed.iter().cloned().collect();
        if listed.len() != listed_set.len() || listed_set != sold_days {
            vfail!("{sy}: disposals listed {listed:?} but the (security, day) pairs with sales are {sold_days:?}\n{}", crate::led::to_dsl(ledger));
        }
        if y.disposal_count() != y.disposals.len() {
            vfail!("{sy}: disposal_count {} but {} disposals", y.disposal_count(), y.disposals.len());
        }
        let jc = json.pointer(&format!("/tax_years/{yi}/disposal_count")).and_then(|v| v.as_u64());
        if jc != Some(y.disposals.len() as u64) {
            vfail!("{sy}: JSON disposal_count {:?} but {} disposals", jc, y.disposals.len());
        }
        let gp: Rat = y.disposals.iter().map(|d| Rat::from_dec(d.gross_proceeds)).sum();
        if !tool::money_close(&gp, y.gross_proceeds(), obs) {
            vfail!("{sy}: gross_proceeds() {} but disposals sum to {}", y.gross_proceeds(), gp);
        }
        // dividends of that tax year from the input lines
        let mut di = Rat::zero();
        let mut dt = Rat::zero();
        for days in agg.values() {
            for dd in days {
                if model::tax_year_of(dd.date) == sy {
                    di += &dd.div_total;
                    dt += &dd.div_tax;
                }
            }
        }
        if !tool::money_close(&di, y.dividend_income, obs) {
            vfail!("{sy}: dividend_income {} but that year's DIVIDEND lines sum to {}", y.dividend_income, di);
        }
        if !tool::money_close(&dt, y.dividend_tax_paid, obs) {
            vfail!("{sy}: dividend_tax_paid {} but that year's DIVIDEND lines sum to {}", y.dividend_tax_paid, dt);
        }
        let Some(ex) = cfg.exemptions.get(&(sy as u16)) else {
            vfail!("{sy}: year reported although no exemption configured");
        };
        if *ex != y.exempt_amount {
            vfail!("{sy}: exempt_amount {} but configured {}", y.exempt_amount, ex);
        }
        let taxable = (Rat::from_dec(y.net_gain) - Rat::from_dec(*ex)).max(Rat::zero());
        if !tool::money_close(&taxable, y.taxable_gain(y.exempt_amount), obs) {
            vfail!("{sy}: taxable gain {} but max(0, net - exemption) = {}", y.taxable_gain(y.exempt_amount), taxable);
        }
    }
    // every year with a sale is listed; a listed year without sales (say, dividends only) must
    // then have no disposals
    if !needed.is_subset(&years_seen) {
        vfail!("tax years in report {years_seen:?} but years with sales {needed:?}");
    }
    for y in &report.tax_years {
        if !needed.contains(&(y.period.start_year() as i32)) && !y.disposals.is_empty() {
            vfail!("tax year {} has no sale but lists disposals", y.period.start_year());
        }
    }
    obs.nontrivial = mixed || multifill || custom;
    obs.class_if(mixed, "year_with_gain_and_loss");
    obs.class_if(multifill, "multi_fill_sale");
    obs.class_if(custom, "non_embedded_exemptions");
    obs.class_if(report.tax_years.len() >= 3, "3+_tax_years");
    obs.class(&format!("cfg_mode_{}", c.cfg_mode));
    Verdict::Pass
}

fn run(ctx: &Ctx) {
    if !ctx.run_prop("embedded_range_years", RULE, ctx.cases(1500, 160_000), strat_years, check) {
        return;
    }
    if !ctx.run_prop("any_years_with_events", RULE, ctx.cases(1000, 120_000), strat_wide, check) {
        return;
    }
    if !ctx.run_prop("zero_and_mixed_results", RULE, ctx.cases(800, 60_000), strat_zero, check) {
        return;
    }
    // exemption override *files* (working directory / $HOME/.config/cgt-tool) through the real CLI
    crate::props::proc_checks::c07_cli(ctx);
}

fn replay(name: &str, case: &Value) -> Option<Verdict> {
    match name {
        "embedded_range_years" | "any_years_with_events" | "zero_and_mixed_results" => {
            Some(replay_case::<Case, _>(case, check).unwrap_or_else(Verdict::Fail))
        }
        other => crate::props::proc_checks::replay(other, case),
    }
}

#[allow(dead_code)]
fn unused(_: BTreeMap<u8, u8>) {}
