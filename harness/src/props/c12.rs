//! C12 — figures for earlier years do not change when later transactions are appended.

use crate::led::Tx;
use crate::lgen::{self, GenCfg, Recipe, SplitMode};
use crate::model::{self, NoFx, Quirks, Rule};
use crate::props::PropDef;
use crate::runner::{replay_case, Ctx, Obs, Tier, Verdict};
use crate::tool::{self, Outcome};
use chrono::Duration;
use proptest::prelude::*;
use serde::{Deserialize, Serialize};
use serde_json::Value;

pub fn def() -> PropDef {
    PropDef { id: "C12", run, replay, assumptions: &["continuations contain BUY/SELL/SPLIT/UNSPLIT/DIVIDEND only (CAPRETURN/ACCUMULATION are excluded by the statement) and start more than 30 days after the prefix's last transaction"] }
}

#[derive(Clone, Debug, Serialize, Deserialize)]
pub struct Case {
    pub prefix: Vec<Tx>,
    pub suffix: Vec<Tx>,
    pub gap: i64,
}

const RULE: &str = "accepted prefix P (1-3 securities, splits, optionally its own asset events) x continuation S built by the same constructive builder from P's closing holdings, first date = last(P) + 31..40 (or +200/+400) days; non-trivial = P has a sale in its last 30 days, or S begins on day +31, or S splits a security that P sold by 30-day match; distinct by hash of P+S";

fn build_case(r1: Recipe, r2: Recipe, gapsel: u8, pcfg: GenCfg, scfg: GenCfg) -> Case {
    let p = lgen::build(&r1, &pcfg);
    let last = p.ledger.iter().map(|t| t.date).max();
    let gap = [31i64, 31, 31, 32, 35, 40, 200, 400][gapsel as usize % 8];
    match last {
        None => Case { prefix: p.ledger, suffix: vec![], gap },
        Some(last) => {
            let start = last + Duration::days(gap);
            let s = lgen::build_from(&r2, &scfg, Some(start), &p.ledger);
            Case { prefix: p.ledger, suffix: s.ledger, gap }
        }
    }
}

fn mk(pcfg: GenCfg, scfg: GenCfg) -> BoxedStrategy<Case> {
    (lgen::recipe_strategy(pcfg), lgen::recipe_strategy(scfg), 0u8..8)
        .prop_map(move |(r1, r2, g)| build_case(r1, r2, g, pcfg, scfg))
        .boxed()
}
fn strat_plain(t: Tier) -> BoxedStrategy<Case> {
    let p = GenCfg::basic().secs(3).days(2, t.pick(10, 20)).dividends(true).years(1901, 2090);
    let s = GenCfg::basic().secs(3).days(1, t.pick(8, 16)).dividends(true).years(1901, 2095);
    mk(p, s)
}
fn strat_split(t: Tier) -> BoxedStrategy<Case> {
    let p = GenCfg::basic().secs(2).days(2, t.pick(10, 20)).splits(SplitMode::Terminating).years(1901, 2090);
    let s = GenCfg::basic().secs(2).days(1, t.pick(8, 16)).splits(SplitMode::Terminating).years(1901, 2095);
    mk(p, s)
}
fn strat_events_in_prefix(t: Tier) -> BoxedStrategy<Case> {
    let p = GenCfg::basic().secs(2).days(2, t.pick(10, 20)).splits(SplitMode::Terminating).events(true).years(1901, 2090);
    let s = GenCfg::basic().secs(2).days(1, t.pick(8, 16)).splits(SplitMode::Terminating).dividends(true).years(1901, 2095);
    mk(p, s)
}

pub fn check(c: &Case, obs: &mut Obs) -> Verdict {
    let mut full = c.prefix.clone();
    full.extend(c.suffix.iter().cloned());
    if lgen::has_excluded_placement(&full) || c.suffix.iter().any(|t| t.is_event()) {
        obs.excluded += 1;
        return Verdict::Pass;
    }
    let (Some(last_p), first_s) = (c.prefix.iter().map(|t| t.date).max(), c.suffix.iter().map(|t| t.date).min()) else {
        return Verdict::Pass;
    };
    if let Some(fs) = first_s {
        if (fs - last_p).num_days() <= 30 {
            return Verdict::fail("harness: continuation starts within 30 days".to_string());
        }
    }
    obs.hash = crate::led::hash_str(&format!("{}##{}", crate::led::to_dsl(&c.prefix), crate::led::to_dsl(&c.suffix)));
    if obs.sample.is_none() {
        obs.sample = Some(serde_json::json!({"prefix": tool::sample_of(&c.prefix), "suffix": tool::sample_of(&c.suffix)}));
    }
    let rp = match tool::calc(&c.prefix) {
        Outcome::Ok(r) => r,
        Outcome::Err(_) => {
            obs.class("prefix_rejected");
            return Verdict::Pass;
        }
        Outcome::Panic(p) => return Verdict::fail(format!("calculate panicked: {} at {}", p.msg, p.loc)),
    };
    // classification
    let open_window = c.prefix.iter().any(|t| matches!(t.op, crate::led::Op::Sell { .. }) && (last_p - t.date).num_days() < 30);
    let day31 = first_s.map(|f| (f - last_p).num_days() == 31).unwrap_or(false);
    let splits_bnb_sec = model::evaluate(&c.prefix, &NoFx, Quirks::default())
        .map(|m| {
            c.suffix.iter().any(|t| t.is_split() && m.secs.get(&t.ticker).map(|s| s.disposals.iter().any(|d| d.legs.iter().any(|l| l.rule == Rule::Bnb))).unwrap_or(false))
        })
        .unwrap_or(false);
    obs.nontrivial = !c.suffix.is_empty() && (open_window || day31 || splits_bnb_sec);
    obs.class_if(open_window, "prefix_ends_with_open_30day_window");
    obs.class_if(day31, "continuation_starts_on_day_31");
    obs.class_if(splits_bnb_sec, "continuation_splits_security_sold_by_30day_match");
    obs.class_if(c.suffix.is_empty(), "empty_continuation");

    let rf = match tool::calc(&full) {
        Outcome::Ok(r) => r,
        Outcome::Err(e) => {
            // the continuation is covered by construction: a refusal is caused by the growth itself.
            // F3 (rounding dust through a non-terminating ratio) cannot occur: ratios are terminating.
            return Verdict::fail(format!(
                "ledger accepted up to {last_p} is rejected after appending later transactions: {e}\n--- prefix ---\n{}\n--- continuation ---\n{}",
                crate::led::to_dsl(&c.prefix),
                crate::led::to_dsl(&c.suffix)
            ));
        }
        Outcome::Panic(p) => return Verdict::fail(format!("calculate panicked: {} at {}", p.msg, p.loc)),
    };
    // every disposal of report(P) appears unchanged in report(P+S)
    let dp = tool::all_disposals(&rp);
    let df = tool::all_disposals(&rf);
    for d in &dp {
        let Some(e) = df.iter().find(|x| x.date == d.date && x.ticker == d.ticker) else {
            return Verdict::fail(format!("disposal {} {} disappeared after appending later transactions", d.ticker, d.date));
        };
        if d != e {
            let mut o2 = Obs::default();
            let why = match tool::disposals_equivalent(d, e, &mut o2) {
                Err(w) => w,
                Ok(()) => {
                    // equal within the standard tolerance: "unchanged" for a tool that gets the
                    // same figures along another arithmetic path
                    obs.class("earlier_disposal_equal_within_tolerance_only");
                    continue;
                }
            };
            return Verdict::fail(format!(
                "disposal {} {} changed after appending transactions dated > {} + 30 days: {why}\n--- prefix ---\n{}\n--- continuation ---\n{}",
                d.ticker,
                d.date,
                last_p,
                crate::led::to_dsl(&c.prefix),
                crate::led::to_dsl(&c.suffix)
            ));
        }
    }
    // every tax year that ended before the continuation begins has identical totals
    if let Some(fs) = first_s {
        let first_suffix_year = model::tax_year_of(fs);
        for y in &rp.tax_years {
            let sy = y.period.start_year() as i32;
            if sy < first_suffix_year {
                let Some(z) = rf.tax_years.iter().find(|t| t.period == y.period) else {
                    return Verdict::fail(format!("tax year {} disappeared", y.period));
                };
                // dividends of that year cannot change either: S's dividends are dated later
                let same_within_tolerance = y.disposals.len() == z.disposals.len()
                    && tool::dec_money_close(y.total_gain, z.total_gain, obs)
                    && tool::dec_money_close(y.total_loss, z.total_loss, obs)
                    && tool::dec_money_close(y.net_gain, z.net_gain, obs)
                    && tool::dec_money_close(y.dividend_income, z.dividend_income, obs)
                    && tool::dec_money_close(y.dividend_tax_paid, z.dividend_tax_paid, obs)
                    && y.exempt_amount == z.exempt_amount;
                if y != z && !same_within_tolerance {
                    return Verdict::fail(format!(
                        "tax year {} (ended before the continuation began) changed: gain {} -> {}, loss {} -> {}, disposals {} -> {}",
                        y.period,
                        y.total_gain,
                        z.total_gain,
                        y.total_loss,
                        z.total_loss,
                        y.disposals.len(),
                        z.disposals.len()
                    ));
                }
            }
        }
    }
    Verdict::Pass
}

fn run(ctx: &Ctx) {
    if !ctx.run_prop("plain", RULE, ctx.cases(1200, 360_000), strat_plain, check) {
        return;
    }
    if !ctx.run_prop("with_splits", RULE, ctx.cases(1000, 360_000), strat_split, check) {
        return;
    }
    ctx.run_prop("asset_events_in_prefix", RULE, ctx.cases(600, 240_000), strat_events_in_prefix, check);
}

fn replay(name: &str, case: &Value) -> Option<Verdict> {
    match name {
        "plain" | "with_splits" | "asset_events_in_prefix" => Some(replay_case::<Case, _>(case, check).unwrap_or_else(Verdict::Fail)),
        _ => None,
    }
}
