//! C18 / C19 — Schwab converter: generated exports and awards files against reference
//! computations written from the statements.

use crate::props::PropDef;
use crate::runner::{replay_case, Ctx, Obs, Tier, Verdict};
use crate::tool;
use cgt_converter::schwab::{SchwabConverter, SchwabInput};
use cgt_converter::{BrokerConverter, ConvertError, ConvertOutput};
use cgt_core::{Operation, Transaction};
use chrono::{Duration, NaiveDate};
use proptest::prelude::*;
use rust_decimal::Decimal;
use serde::{Deserialize, Serialize};
use serde_json::{json, Value};
use std::collections::BTreeMap;

pub fn def18() -> PropDef {
    PropDef {
        id: "C18",
        run: run18,
        replay: replay18,
        assumptions: &[
            "exports use alphanumeric symbols and non-negative quantities, prices and fees (the statement's domain); dividend and withholding rows always carry symbol and amount",
            "a withholding row without a same-day dividend of the same symbol counts as 'every other row': it must be counted as skipped or surfaced",
        ],
    }
}
pub fn def19() -> PropDef {
    PropDef {
        id: "C19",
        run: run19,
        replay: replay19,
        assumptions: &[
            "a detail whose VestFairMarketValue is present but blank while it also carries a FairMarketValuePrice is not generated (the statement does not say which wins); awards entries with unknown/absent action and empty details are not generated",
        ],
    }
}

// ------------------------------------------------------------------------------------------
// awards model (shared)
// ------------------------------------------------------------------------------------------

#[derive(Clone, Debug, Serialize, Deserialize)]
pub struct Detail {
    /// VestDate as offset from the entry date (None = field absent)
    pub vest_off: Option<i8>,
    /// VestFairMarketValue text (None = absent; "" / "--" = blank)
    pub vest_fmv: Option<String>,
    /// FairMarketValuePrice text
    pub fmv: Option<String>,
}

#[derive(Clone, Debug, Serialize, Deserialize)]
pub struct Entry {
    pub off: i16,
    pub symbol: String,
    pub action: Option<String>,
    pub details: Vec<Detail>,
}

fn mdy(d: NaiveDate) -> String {
    d.format("%m/%d/%Y").to_string()
}

pub fn awards_json(base: NaiveDate, entries: &[Entry]) -> String {
    let txs: Vec<Value> = entries
        .iter()
        .map(|e| {
            let date = base + Duration::days(e.off as i64);
            let details: Vec<Value> = e
                .details
                .iter()
                .map(|d| {
                    let mut m = serde_json::Map::new();
                    m.insert("AwardId".into(), json!("RSU-1"));
                    if let Some(o) = d.vest_off {
                        m.insert("VestDate".into(), json!(mdy(date + Duration::days(o as i64))));
                    }
                    if let Some(v) = &d.vest_fmv {
                        m.insert("VestFairMarketValue".into(), json!(v));
                    }
                    if let Some(v) = &d.fmv {
                        m.insert("FairMarketValuePrice".into(), json!(v));
                    }
                    json!({"Details": Value::Object(m)})
                })
                .collect();
            let mut m = serde_json::Map::new();
            m.insert("Date".into(), json!(mdy(date)));
            if let Some(a) = &e.action {
                m.insert("Action".into(), json!(a));
            }
            m.insert("Symbol".into(), json!(e.symbol));
            m.insert("Quantity".into(), json!("10"));
            m.insert("TransactionDetails".into(), Value::Array(details));
            Value::Object(m)
        })
        .collect();
    json!({"FromDate": "01/01/2000", "ToDate": "12/31/2099", "Transactions": txs}).to_string()
}

/// "$1,234.50"-style text -> Decimal; None for blank/"--"
pub fn parse_money_text(s: &str) -> Option<Decimal> {
    let t = s.trim();
    if t.is_empty() || t == "--" {
        return None;
    }
    t.replace(['$', ','], "").parse().ok()
}

#[derive(Debug, Clone, PartialEq)]
pub enum AwardsRef {
    /// (symbol upper, date) -> acceptable prices
    Table(BTreeMap<(String, NaiveDate), Vec<Decimal>>),
    /// the file itself must be rejected (vesting action with empty details)
    Rejected,
    /// outside the generated domain (ambiguous combination)
    Ambiguous,
}

/// Reference candidate table written from the statement.
pub fn awards_reference(base: NaiveDate, entries: &[Entry]) -> AwardsRef {
    let mut t: BTreeMap<(String, NaiveDate), Vec<Decimal>> = BTreeMap::new();
    for e in entries {
        let date = base + Duration::days(e.off as i64);
        if e.details.is_empty() {
            match e.action.as_deref() {
                Some("Deposit") | Some("Lapse") | Some("Sale") | Some("Forced Quick Sell") => return AwardsRef::Rejected,
                Some("Wire Transfer") | Some("Tax Withholding") | Some("Tax Reversal") | Some("Forced Disbursement") => continue,
                _ => return AwardsRef::Ambiguous,
            }
        }
        let sym = e.symbol.to_uppercase();
        let mut vest: Vec<(NaiveDate, Decimal)> = vec![];
        let mut fallback: Option<(NaiveDate, Decimal)> = None;
        for d in &e.details {
            match &d.vest_fmv {
                Some(v) => match parse_money_text(v) {
                    Some(p) => vest.push((d.vest_off.map(|o| date + Duration::days(o as i64)).unwrap_or(date), p)),
                    None => {
                        if d.fmv.as_deref().and_then(parse_money_text).is_some() {
                            return AwardsRef::Ambiguous;
                        }
                    }
                },
                None => {
                    if let Some(p) = d.fmv.as_deref().and_then(parse_money_text) {
                        if fallback.is_none() {
                            fallback = Some((date, p));
                        }
                    }
                }
            }
        }
        if !vest.is_empty() {
            for (dt, p) in vest {
                t.entry((sym.clone(), dt)).or_default().push(p);
            }
        } else if let Some((dt, p)) = fallback {
            t.entry((sym.clone(), dt)).or_default().push(p);
        }
    }
    AwardsRef::Table(t)
}

/// exact date, else nearest earlier date 1..=7 days back
pub fn lookup(t: &BTreeMap<(String, NaiveDate), Vec<Decimal>>, sym: &str, deposit: NaiveDate) -> Option<(NaiveDate, Vec<Decimal>)> {
    let s = sym.to_uppercase();
    for back in 0..=7 {
        let d = deposit - Duration::days(back);
        if let Some(v) = t.get(&(s.clone(), d)) {
            return Some((d, v.clone()));
        }
    }
    None
}

fn arb_money_text() -> BoxedStrategy<String> {
    prop_oneof![
        4 => (1u32..100_000, 0u32..5).prop_map(|(m, s)| format!("${}", Decimal::new(m as i64, s))),
        2 => (1u32..100_000, 0u32..3).prop_map(|(m, s)| format!("{}", Decimal::new(m as i64, s))),
        1 => (1000u32..9_000_000).prop_map(|m| {
            let d = Decimal::new(m as i64, 2);
            let s = d.to_string();
            let (ip, fp) = s.split_once('.').unwrap_or((&s, "00"));
            let mut out = String::new();
            for (i, ch) in ip.chars().enumerate() {
                if i > 0 && (ip.len() - i) % 3 == 0 {
                    out.push(',');
                }
                out.push(ch);
            }
            format!("${out}.{fp}")
        }),
    ]
    .boxed()
}

fn arb_detail() -> BoxedStrategy<Detail> {
    prop_oneof![
        // vest fields
        4 => (prop_oneof![2 => Just(None), 5 => (-9i8..=3).prop_map(Some)], arb_money_text(), prop_oneof![Just(None), arb_money_text().prop_map(Some)]).prop_map(|(vest_off, v, fmv)| Detail { vest_off, vest_fmv: Some(v), fmv }),
        // fallback only
        3 => arb_money_text().prop_map(|p| Detail { vest_off: None, vest_fmv: None, fmv: Some(p) }),
        // blank vest value, no fallback
        1 => prop_oneof![Just("".to_string()), Just("--".to_string())].prop_map(|b| Detail { vest_off: Some(-1), vest_fmv: Some(b), fmv: None }),
        // nothing usable
        1 => Just(Detail { vest_off: None, vest_fmv: None, fmv: Some("--".into()) }),
        1 => Just(Detail { vest_off: Some(-2), vest_fmv: None, fmv: None }),
    ]
    .boxed()
}

fn sym_variant(i: u8) -> &'static str {
    // other symbols sort before and after ACME, two share a prefix with it
    ["ACME", "acme", "Acme", "OTHR", "ZED", "AAA", "ACM", "ACMEX"][i as usize % 8]
}

fn arb_entry() -> BoxedStrategy<Entry> {
    (
        -12i16..=12,
        prop_oneof![6 => 0u8..3, 3 => 3u8..8],
        prop_oneof![3 => Just(Some("Lapse")), 2 => Just(Some("Deposit")), 1 => Just(Some("Sale")), 1 => Just(None), 1 => Just(Some("Wire Transfer")), 1 => Just(Some("Tax Withholding"))],
        prop_oneof![1 => proptest::collection::vec(arb_detail(), 0..1), 9 => proptest::collection::vec(arb_detail(), 1..4)],
    )
        .prop_map(|(off, s, action, mut details)| {
            let action = action.map(String::from);
            // unknown/absent action with empty details is outside the domain: give it a detail
            let vesting = matches!(action.as_deref(), Some("Lapse") | Some("Deposit") | Some("Sale"));
            let cash = matches!(action.as_deref(), Some("Wire Transfer") | Some("Tax Withholding"));
            if details.is_empty() && !vesting && !cash {
                details.push(Detail { vest_off: None, vest_fmv: None, fmv: Some("$10".into()) });
            }
            if cash && off % 2 == 0 {
                details.clear();
            }
            Entry { off, symbol: sym_variant(s).to_string(), action, details }
        })
        .boxed()
}

fn arb_base() -> BoxedStrategy<NaiveDate> {
    prop_oneof![
        (2016i32..2025, 1u32..13, 1u32..29).prop_filter_map("d", |(y, m, d)| NaiveDate::from_ymd_opt(y, m, d)),
        (2016i32..2025).prop_map(|y| NaiveDate::from_ymd_opt(y, 1, 3).expect("d")),
        (2016i32..2025).prop_map(|y| NaiveDate::from_ymd_opt(y, 3, 2).expect("d")),
        Just(NaiveDate::from_ymd_opt(2024, 3, 1).expect("d")),
        (2016i32..2025).prop_map(|y| NaiveDate::from_ymd_opt(y, 12, 30).expect("d")),
    ]
    .boxed()
}

fn convert(transactions: &str, awards: Option<&str>) -> Result<Result<ConvertOutput, ConvertError>, tool::PanicInfo> {
    let input = SchwabInput { transactions_json: transactions.to_string(), awards_json: awards.map(String::from) };
    tool::guarded(|| SchwabConverter::new().convert(&input))
}

// ------------------------------------------------------------------------------------------
// C19
// ------------------------------------------------------------------------------------------

#[derive(Clone, Debug, Serialize, Deserialize)]
pub struct Case19 {
    pub base: NaiveDate,
    pub entries: Vec<Entry>,
    /// deposit rows: (offset from base, symbol variant)
    pub deposits: Vec<(i16, u8)>,
    pub with_awards: bool,
}

const RULE19: &str = "awards files with 1-8 entries per symbol at offsets -12..+12 days around a base date (month/year ends included), duplicate dates, vest-specific / fallback / blank price fields, vesting and cash actions with empty details, mixed-case symbols and noise symbols x 1-3 Stock Plan Activity rows at offsets -12..+12; also no awards file; non-trivial = >=2 candidate dates within +-8 days of a deposit, or the nearest candidate lies after the deposit, or the gap to the nearest earlier candidate is 7 or 8; distinct by case hash";

fn strat19(_t: Tier) -> BoxedStrategy<Case19> {
    (arb_base(), proptest::collection::vec(arb_entry(), 0..8), proptest::collection::vec((-12i16..=12, prop_oneof![5 => 0u8..3, 1 => 3u8..8]), 1..4), prop_oneof![9 => Just(true), 1 => Just(false)])
        .prop_map(|(base, entries, deposits, with_awards)| Case19 { base, entries, deposits, with_awards })
        .boxed()
}

fn spa_rows(base: NaiveDate, deposits: &[(i16, u8)]) -> String {
    let rows: Vec<Value> = deposits
        .iter()
        .enumerate()
        .map(|(i, (off, s))| {
            json!({"Date": mdy(base + Duration::days(*off as i64)), "Action": "Stock Plan Activity", "Symbol": sym_variant(*s), "Description": "RSU", "Quantity": format!("{}", 100 + i), "Price": "", "Fees & Comm": "", "Amount": ""})
        })
        .collect();
    json!({"BrokerageTransactions": rows}).to_string()
}

/// the error "names the symbol and date" of a deposit row: whatever the error type, its text holds
/// the symbol (any letter case) and the date in ISO, US or UK form
fn error_names_row(msg: &str, sym: &str, d: NaiveDate) -> bool {
    let m = msg.to_lowercase();
    m.contains(&sym.to_lowercase()) && ["%Y-%m-%d", "%m/%d/%Y", "%d/%m/%Y"].iter().any(|f| m.contains(&d.format(f).to_string()))
}

pub fn check19(c: &Case19, obs: &mut Obs) -> Verdict {
    obs.hash = crate::led::hash_str(&format!("{c:?}"));
    let awards = awards_json(c.base, &c.entries);
    let txs = spa_rows(c.base, &c.deposits);
    let reference = awards_reference(c.base, &c.entries);
    if reference == AwardsRef::Ambiguous {
        obs.excluded += 1;
        return Verdict::Pass;
    }
    let res = match convert(&txs, if c.with_awards { Some(&awards) } else { None }) {
        Ok(r) => r,
        Err(p) => return Verdict::fail(format!("converter panicked: {} at {}", p.msg, p.loc)),
    };
    if obs.sample.is_none() {
        obs.sample = Some(json!({"base": c.base.to_string(), "deposits": c.deposits, "entries": c.entries.len(), "with_awards": c.with_awards}));
    }
    let first = c.deposits[0];
    let first_date = c.base + Duration::days(first.0 as i64);
    if !c.with_awards {
        obs.class("no_awards_file");
        obs.nontrivial = true;
        return match res {
            Err(e) => {
                let msg = e.to_string();
                if c.deposits.iter().any(|(o, s)| error_names_row(&msg, sym_variant(*s), c.base + Duration::days(*o as i64))) {
                    Verdict::Pass
                } else {
                    Verdict::fail(format!("RSU rows without awards file: the error names no deposit row's symbol and date (first is {} {first_date}): {msg}", sym_variant(first.1)))
                }
            }
            Ok(o) => Verdict::fail(format!("RSU rows converted without an awards file:\n{}", o.cgt_content)),
        };
    }
    let table = match reference {
        AwardsRef::Rejected => {
            obs.class("vesting_action_with_empty_details");
            obs.nontrivial = true;
            // (the statement does not say what such an entry means: a refusal of any kind, or a
            // conversion that simply has no usable entry there, are both left unjudged)
            return match res {
                Err(_) => Verdict::Pass,
                Ok(_) => {
                    obs.class("vesting_action_with_empty_details_accepted");
                    Verdict::Pass
                }
            };
        }
        AwardsRef::Table(t) => t,
        AwardsRef::Ambiguous => unreachable!(),
    };
    // expectations per deposit
    let mut expected: Vec<Option<(NaiveDate, Vec<Decimal>)>> = vec![];
    let mut nt = false;
    for (off, s) in &c.deposits {
        let dep = c.base + Duration::days(*off as i64);
        let sym = sym_variant(*s).to_uppercase();
        let e = lookup(&table, &sym, dep);
        // classification
        let near: Vec<NaiveDate> = table.keys().filter(|(k, d)| *k == sym && (*d - dep).num_days().abs() <= 8).map(|(_, d)| *d).collect();
        let after_nearest = near.iter().min_by_key(|d| (**d - dep).num_days().abs()).map(|d| *d > dep).unwrap_or(false);
        let gap78 = table.keys().filter(|(k, d)| *k == sym && *d < dep).map(|(_, d)| (dep - *d).num_days()).min().map(|g| g == 7 || g == 8).unwrap_or(false);
        if near.len() >= 2 || after_nearest || gap78 {
            nt = true;
        }
        obs.class_if(near.len() >= 2, "2+_candidates_within_8_days");
        obs.class_if(after_nearest, "nearest_candidate_after_deposit");
        obs.class_if(gap78, "gap_7_or_8");
        obs.class(if e.is_some() { "deposit_resolvable" } else { "deposit_unresolvable" });
        expected.push(e);
    }
    obs.nontrivial = nt;
    let any_missing = expected.iter().any(|e| e.is_none());
    match res {
        Err(e) => {
            let msg = e.to_string();
            if !any_missing {
                return Verdict::fail(format!("every deposit has an awards entry within 7 days back, but conversion failed: {msg}\nawards: {awards}\nrows: {txs}"));
            }
            let ok = c.deposits.iter().zip(expected.iter()).any(|((o, s), e)| e.is_none() && error_names_row(&msg, sym_variant(*s), c.base + Duration::days(*o as i64)));
            if ok { Verdict::Pass } else { Verdict::fail(format!("the error does not name the symbol and date of an unresolvable deposit: {msg}")) }
        }
        Ok(out) => {
            if any_missing {
                return Verdict::fail(format!("a deposit has no awards entry on its date or within 7 days before it, yet conversion succeeded (a cost was invented)\nawards: {awards}\nrows: {txs}\noutput:\n{}", out.cgt_content));
            }
            let parsed = match cgt_core::parser::parse_file(&out.cgt_content) {
                Ok(p) => p,
                Err(e) => return Verdict::fail(format!("converter output does not parse: {e}")),
            };
            for (i, ((_, s), e)) in c.deposits.iter().zip(expected.iter()).enumerate() {
                let (want_date, prices) = e.clone().expect("checked");
                let q = Decimal::from(100 + i as i64);
                let Some(b) = parsed.iter().find(|t| matches!(&t.operation, Operation::Buy { amount, .. } if *amount == q)) else {
                    return Verdict::fail(format!("no BUY line for deposit row {i}\n{}", out.cgt_content));
                };
                if b.ticker != sym_variant(*s).to_uppercase() {
                    return Verdict::fail(format!("deposit row {i}: ticker {}", b.ticker));
                }
                if b.date != want_date {
                    return Verdict::fail(format!("deposit row {i}: BUY dated {} but the awards entry to use is {want_date}\nawards: {awards}\nrows: {txs}", b.date));
                }
                if let Operation::Buy { price, fees, .. } = &b.operation {
                    if !prices.contains(&price.amount) || price.currency.code() != "USD" {
                        return Verdict::fail(format!("deposit row {i}: BUY priced {} {} but the entry of {want_date} offers {prices:?}\nawards: {awards}", price.amount, price.currency.code()));
                    }
                    if !fees.amount.is_zero() {
                        return Verdict::fail("RSU BUY with fees".to_string());
                    }
                }
            }
            Verdict::Pass
        }
    }
}

fn run19(ctx: &Ctx) {
    ctx.run_prop("rsu_lookup", RULE19, ctx.cases(5000, 6_000_000), strat19, check19);
}
fn replay19(name: &str, case: &Value) -> Option<Verdict> {
    match name {
        "rsu_lookup" => Some(replay_case::<Case19, _>(case, check19).unwrap_or_else(Verdict::Fail)),
        _ => None,
    }
}

// ------------------------------------------------------------------------------------------
// C18
// ------------------------------------------------------------------------------------------

#[derive(Clone, Debug, Serialize, Deserialize)]
pub enum Kind {
    Buy,
    Sell,
    CancelSell,
    Spa,
    Dividend(u8),
    Nra(u8),
    Split,
    NonCgt(u8),
    Unknown(u8),
}

#[derive(Clone, Debug, Serialize, Deserialize)]
pub struct Row {
    pub kind: Kind,
    pub off: u16,
    /// "MM/DD/YYYY as of MM/DD/YYYY": the as-of date is `off`, the first date is off + as_of_lag
    pub as_of_lag: Option<u8>,
    pub sym: u8,
    pub qty: u32,
    pub price: u32,
    pub fee: u32,
    pub amount: u32,
    pub style: u8,
    pub desc: String,
    /// for CancelSell: index of the row to cancel (mod number of sells), or a non-matching one
    pub target: u16,
}

#[derive(Clone, Debug, Serialize, Deserialize)]
pub struct Case18 {
    pub base: NaiveDate,
    pub rows: Vec<Row>,
    pub perm: Vec<u16>,
    pub cuts: Vec<u16>,
}

const SYMS: [&str; 5] = ["ACME", "Beta", "gama", "X1", "ZZ9"];
const DIV_ACTIONS: [&str; 4] = ["Cash Dividend", "Qualified Dividend", "Short Term Cap Gain", "Long Term Cap Gain"];
const NRA_ACTIONS: [&str; 2] = ["NRA Tax Adj", "NRA Withholding"];
const NONCGT: [&str; 8] = ["Adjustment", "Credit Interest", "Journal", "Misc Cash Entry", "MoneyLink Transfer", "Service Fee", "Wire Funds Adj", "Wire Sent"];
const UNKNOWN: [&str; 4] = ["Reinvest Shares", "Bank Interest", "Security Transfer", "buy"];

fn money_text(v: Decimal, style: u8, negative: bool) -> String {
    let s = v.to_string();
    let body = match style % 4 {
        0 => format!("${s}"),
        1 => s,
        2 => {
            let (ip, fp) = match s.split_once('.') {
                Some((a, b)) => (a.to_string(), format!(".{b}")),
                None => (s.clone(), String::new()),
            };
            let mut out = String::new();
            for (i, ch) in ip.chars().enumerate() {
                if i > 0 && (ip.len() - i) % 3 == 0 {
                    out.push(',');
                }
                out.push(ch);
            }
            format!("${out}{fp}")
        }
        _ => format!(" ${s} "),
    };
    if negative { format!("-{}", body.trim()) } else { body }
}

/// Dividend and withholding rows sometimes carry a blank Amount ("" or "--"): such a row adds
/// nothing to any total (and may or may not be counted as skipped).
fn blank_amount(r: &Row) -> Option<&'static str> {
    match (&r.kind, r.target % 8) {
        (Kind::Dividend(_) | Kind::Nra(_), 6) => Some("--"),
        (Kind::Dividend(_) | Kind::Nra(_), 7) => Some(""),
        _ => None,
    }
}

/// A withholding row whose Symbol is blank (the converter accepts it): it belongs to no dividend,
/// so it must be surfaced like any other withholding without a dividend.
/// NOT generated: the repository's own test `test_nra_tax_missing_symbol_is_ignored` pins that such
/// a row is ignored without trace, and the statement's quantifier does not list blank symbols, so
/// demanding that it be surfaced would be more than the property states (see DESIGN 7.3).
fn symbolless_nra(_r: &Row) -> bool {
    false
}

fn row_date(base: NaiveDate, r: &Row) -> NaiveDate {
    base + Duration::days(r.off as i64)
}

fn row_json(base: NaiveDate, r: &Row, rows: &[Row]) -> Value {
    let date = row_date(base, r);
    let date_text = match r.as_of_lag {
        Some(l) => format!("{} as of {}", mdy(date + Duration::days(l as i64)), mdy(date)),
        None => mdy(date),
    };
    let sym = SYMS[r.sym as usize % SYMS.len()];
    let qty = Decimal::new(1 + r.qty as i64, (r.style % 3) as u32);
    let price = Decimal::new(1 + r.price as i64, 2 + (r.style % 3) as u32);
    let fee = if r.fee % 3 == 0 { None } else { Some(Decimal::new(r.fee as i64 % 5000, 2)) };
    let fee_text = match fee {
        None => if r.fee % 2 == 0 { "".to_string() } else { "--".to_string() },
        // Schwab spells debits with a minus sign in some columns: a fee keeps its size either way
        Some(f) => money_text(f, r.style / 4, r.fee % 7 == 3),
    };
    let amount = Decimal::new(1 + r.amount as i64, 2);
    let mk = |action: &str, sym: &str, q: String, p: String, f: String, a: String| json!({"Date": date_text, "Action": action, "Symbol": sym, "Description": r.desc, "Quantity": q, "Price": p, "Fees & Comm": f, "Amount": a, "ItemIssueId": "0"});
    match &r.kind {
        Kind::Buy => mk("Buy", sym, money_text(qty, 1, false), money_text(price, r.style, false), fee_text, money_text(qty * price, 0, true)),
        Kind::Sell => mk("Sell", sym, money_text(qty, 1, false), money_text(price, r.style, false), fee_text, money_text(qty * price, 2, false)),
        Kind::CancelSell => {
            // copy the target sell's identifying fields when there is one
            let sells: Vec<&Row> = rows.iter().filter(|x| matches!(x.kind, Kind::Sell)).collect();
            if !sells.is_empty() && r.target % 4 != 3 {
                let t = sells[r.target as usize % sells.len()];
                let tq = Decimal::new(1 + t.qty as i64, (t.style % 3) as u32);
                let tp = Decimal::new(1 + t.price as i64, 2 + (t.style % 3) as u32);
                let td = row_date(base, t);
                let text = match r.as_of_lag {
                    Some(l) => format!("{} as of {}", mdy(td + Duration::days(l as i64)), mdy(td)),
                    None => mdy(td),
                };
                json!({"Date": text, "Action": "Cancel Sell", "Symbol": SYMS[t.sym as usize % SYMS.len()], "Description": r.desc, "Quantity": money_text(tq, 1, false), "Price": money_text(tp, r.style, false), "Fees & Comm": "", "Amount": ""})
            } else {
                mk("Cancel Sell", sym, money_text(qty, 1, false), money_text(price, r.style, false), "".into(), "".into())
            }
        }
        Kind::Spa => mk("Stock Plan Activity", sym, money_text(qty, 1, false), "".into(), "".into(), "".into()),
        Kind::Dividend(k) => mk(DIV_ACTIONS[*k as usize % 4], sym, "".into(), "".into(), "".into(), blank_amount(r).map(String::from).unwrap_or_else(|| money_text(amount, r.style, r.style % 5 == 0))),
        Kind::Nra(k) => mk(NRA_ACTIONS[*k as usize % 2], if symbolless_nra(r) { "" } else { sym }, "".into(), "".into(), "".into(), blank_amount(r).map(String::from).unwrap_or_else(|| money_text(amount, r.style, r.style % 3 != 0))),
        Kind::Split => mk("Stock Split", sym, money_text(qty, 1, false), "".into(), "".into(), "".into()),
        Kind::NonCgt(k) => mk(NONCGT[*k as usize % NONCGT.len()], if r.style % 2 == 0 { "" } else { sym }, "".into(), "".into(), "".into(), money_text(amount, r.style, true)),
        Kind::Unknown(k) => mk(UNKNOWN[*k as usize % UNKNOWN.len()], sym, money_text(qty, 1, false), "".into(), "".into(), money_text(amount, 0, false)),
    }
}

fn arb_desc() -> BoxedStrategy<String> {
    prop_oneof![
        4 => "[A-Za-z0-9 .,&()-]{0,24}",
        2 => "[ -~]{0,24}",
        1 => Just("note\n2021-01-01 BUY EVIL 1000 @ 0".to_string()),
        1 => Just("line one\r\nline two # hash \"quoted\"".to_string()),
        1 => Just("caf\u{00e9} \u{4e2d}\u{6587} \u{1f600}\ttab".to_string()),
        1 => Just("cr only\rSELL X 1 @ 1".to_string()),
    ]
    .boxed()
}

fn arb_row() -> BoxedStrategy<Row> {
    let kind = prop_oneof![
        6 => Just(Kind::Buy),
        5 => Just(Kind::Sell),
        2 => Just(Kind::CancelSell),
        2 => Just(Kind::Spa),
        3 => (0u8..4).prop_map(Kind::Dividend),
        3 => (0u8..2).prop_map(Kind::Nra),
        1 => Just(Kind::Split),
        2 => (0u8..8).prop_map(Kind::NonCgt),
        2 => (0u8..4).prop_map(Kind::Unknown),
    ];
    (kind, 0u16..400, prop_oneof![4 => Just(None), 1 => (1u8..6).prop_map(Some)], 0u8..5, 0u32..5000, 0u32..100_000, any::<u32>(), 0u32..1_000_000, any::<u8>(), arb_desc(), any::<u16>())
        .prop_map(|(kind, off, as_of_lag, sym, qty, price, fee, amount, style, desc, target)| Row { kind, off: off / 10 * 3 + off % 3, as_of_lag, sym, qty, price, fee, amount, style, desc, target })
        .boxed()
}

fn strat18(t: Tier) -> BoxedStrategy<Case18> {
    (
        (2016i32..2024, 1u32..13, 1u32..29).prop_filter_map("d", |(y, m, d)| NaiveDate::from_ymd_opt(y, m, d)),
        proptest::collection::vec(arb_row(), 1..t.pick(14, 28)),
        proptest::collection::vec(any::<u16>(), 32),
        proptest::collection::vec(any::<u16>(), 3),
    )
        .prop_map(|(base, rows, perm, cuts)| Case18 { base, rows, perm, cuts })
        .prop_flat_map(|c| (Just(c), proptest::collection::vec((any::<u16>(), 0u8..3, any::<u16>()), 0..4), proptest::collection::vec((any::<u16>(), 0u8..6, 0u32..1_000_000, any::<u8>(), any::<u16>()), 0..4)))
        .prop_map(|(mut c, twins, companions)| {
            // several dividend / withholding rows for one (date, symbol): a companion row copies
            // date and symbol of an existing dividend or withholding row and carries its own
            // amount and spelling (sign, $, commas), so totals of 2+ rows per key are the norm
            for (pick, kind, amount, style, pos) in companions {
                let divs: Vec<usize> = c.rows.iter().enumerate().filter(|(_, r)| matches!(r.kind, Kind::Dividend(_) | Kind::Nra(_))).map(|(i, _)| i).collect();
                if divs.is_empty() {
                    break;
                }
                let mut comp = c.rows[divs[(pick as usize * divs.len()) >> 16]].clone();
                comp.kind = if kind < 4 { Kind::Nra(kind) } else { Kind::Dividend(kind) };
                comp.amount = amount;
                comp.style = style;
                comp.target = 0;
                let at = (pos as usize * (c.rows.len() + 1)) >> 16;
                c.rows.insert(at, comp);
            }
            // Schwab's price-correction pattern: a Sell re-booked on the same date with the same
            // quantity at another price (or an exact duplicate row), inserted at a random position;
            // Cancel Sell rows pick their target among all sells, so they meet these twins
            for (pick, mode, pos) in twins {
                let sells: Vec<usize> = c.rows.iter().enumerate().filter(|(_, r)| matches!(r.kind, Kind::Sell)).map(|(i, _)| i).collect();
                if sells.is_empty() {
                    break;
                }
                let src = c.rows[sells[(pick as usize * sells.len()) >> 16]].clone();
                let mut twin = src.clone();
                match mode {
                    0 => {} // exact duplicate
                    1 => twin.price = src.price.wrapping_add(1) % 100_000,
                    // (a twin differing only in fees would make a Cancel Sell ambiguous: the cancel
                    // row carries no fees, so "the identical Sell" is not defined; not generated)
                    _ => twin.price = src.price.wrapping_add(137) % 100_000,
                }
                let at = (pos as usize * (c.rows.len() + 1)) >> 16;
                c.rows.insert(at, twin);
            }
            c
        })
        .boxed()
}

/// awards file giving every SPA row an exact-date entry (so RSU rows are resolvable)
fn awards_for(base: NaiveDate, rows: &[Row]) -> (String, BTreeMap<(String, NaiveDate), Decimal>) {
    let mut entries = vec![];
    let mut table = BTreeMap::new();
    for r in rows.iter().filter(|r| matches!(r.kind, Kind::Spa)) {
        let date = row_date(base, r);
        let sym = SYMS[r.sym as usize % SYMS.len()];
        // vest date two days before the deposit (T+2), deposit entry dated at the deposit;
        // the price is a function of (symbol, vest date) so duplicate entries agree
        let vest = date - Duration::days(2);
        let price = Decimal::new(1000 + (chrono::Datelike::ordinal(&vest) as i64 * 37 + r.sym as i64 * 11) % 9000, 2);
        entries.push(json!({"Date": mdy(date), "Action": "Deposit", "Symbol": sym, "TransactionDetails": [{"Details": {"VestDate": mdy(vest), "VestFairMarketValue": format!("${price}")}}]}));
        table.insert((sym.to_uppercase(), vest), price);
    }
    (json!({"Transactions": entries}).to_string(), table)
}

#[derive(Debug, Clone, PartialEq, Eq, PartialOrd, Ord)]
struct Trade {
    buy: bool,
    date: NaiveDate,
    sym: String,
    qty: String,
    price: String,
    fees: String,
}

fn norm(d: Decimal) -> String {
    d.normalize().to_string()
}

/// What the statement says the export must turn into.
struct Expect {
    trades: Vec<Trade>,
    dividends: BTreeMap<(NaiveDate, String), (Decimal, Decimal)>,
    skipped_min: usize,
    skipped_max: usize,
    unknown_actions: Vec<String>,
    unmatched_cancels: usize,
    orphan_nra: usize,
}

fn expectation(base: NaiveDate, rows: &[Row], awards_table: &BTreeMap<(String, NaiveDate), Decimal>) -> Result<Expect, String> {
    let mut trades = vec![];
    let mut sells: Vec<Trade> = vec![];
    let mut cancels: Vec<(NaiveDate, String, String, String)> = vec![];
    let mut dividends: BTreeMap<(NaiveDate, String), (Decimal, Decimal)> = BTreeMap::new();
    let mut nra: BTreeMap<(NaiveDate, String), Decimal> = BTreeMap::new();
    let mut nra_rows: BTreeMap<(NaiveDate, String), usize> = BTreeMap::new();
    let mut skipped = 0;
    let mut blank_rows = 0;
    let mut symbolless_dates: std::collections::BTreeSet<NaiveDate> = Default::default();
    let mut symbolless_rows = 0;
    let mut unknown_actions = vec![];
    for r in rows {
        let date = row_date(base, r);
        let sym = SYMS[r.sym as usize % SYMS.len()].to_uppercase();
        let qty = Decimal::new(1 + r.qty as i64, (r.style % 3) as u32);
        let price = Decimal::new(1 + r.price as i64, 2 + (r.style % 3) as u32);
        let fee = if r.fee % 3 == 0 { Decimal::ZERO } else { Decimal::new(r.fee as i64 % 5000, 2) };
        let amount = Decimal::new(1 + r.amount as i64, 2);
        match &r.kind {
            Kind::Buy => trades.push(Trade { buy: true, date, sym, qty: norm(qty), price: norm(price), fees: norm(fee) }),
            Kind::Sell => sells.push(Trade { buy: false, date, sym, qty: norm(qty), price: norm(price), fees: norm(fee) }),
            Kind::CancelSell => {
                let all_sells: Vec<&Row> = rows.iter().filter(|x| matches!(x.kind, Kind::Sell)).collect();
                if !all_sells.is_empty() && r.target % 4 != 3 {
                    let t = all_sells[r.target as usize % all_sells.len()];
                    cancels.push((row_date(base, t), SYMS[t.sym as usize % SYMS.len()].to_uppercase(), norm(Decimal::new(1 + t.qty as i64, (t.style % 3) as u32)), norm(Decimal::new(1 + t.price as i64, 2 + (t.style % 3) as u32))));
                } else {
                    cancels.push((date, sym, norm(qty), norm(price)));
                }
            }
            Kind::Spa => {
                // C19 rule: entry on the deposit date, else the nearest earlier one within 7 days
                let mut found = None;
                for back in 0..=7 {
                    let d = date - Duration::days(back);
                    if let Some(p) = awards_table.get(&(sym.clone(), d)) {
                        found = Some((d, *p));
                        break;
                    }
                }
                let (vest, p) = found.ok_or_else(|| "harness: SPA row without awards entry".to_string())?;
                trades.push(Trade { buy: true, date: vest, sym, qty: norm(qty), price: norm(p), fees: norm(Decimal::ZERO) });
            }
            Kind::Dividend(_) | Kind::Nra(_) if blank_amount(r).is_some() => blank_rows += 1,
            Kind::Dividend(_) => {
                dividends.entry((date, sym)).or_insert((Decimal::ZERO, Decimal::ZERO)).0 += amount;
            }
            Kind::Nra(_) if symbolless_nra(r) => {
                // surfaced row by row or grouped per date: at least one per date
                symbolless_dates.insert(date);
            }
            Kind::Nra(_) => {
                *nra_rows.entry((date, sym.clone())).or_insert(0usize) += 1;
                *nra.entry((date, sym)).or_insert(Decimal::ZERO) += amount;
            }
            Kind::Split | Kind::NonCgt(_) => skipped += 1,
            Kind::Unknown(k) => {
                skipped += 1;
                unknown_actions.push(UNKNOWN[*k as usize % UNKNOWN.len()].to_string());
            }
        }
    }
    // each Cancel Sell removes exactly one identical Sell
    let mut unmatched = 0;
    for (d, s, q, p) in cancels {
        if let Some(pos) = sells.iter().position(|t| t.date == d && t.sym == s && t.qty == q && t.price == p) {
            sells.remove(pos);
        } else {
            unmatched += 1;
        }
    }
    trades.extend(sells);
    trades.sort();
    let mut orphan = 0;
    let mut orphan_rows = 0;
    for (k, tax) in nra {
        match dividends.get_mut(&k) {
            Some(e) => e.1 += tax,
            None => {
                orphan += 1;
                orphan_rows += nra_rows.get(&k).copied().unwrap_or(1);
            }
        }
    }
    for r in rows {
        if symbolless_nra(r) && blank_amount(r).is_none() {
            symbolless_rows += 1;
        }
    }
    let orphan_groups = orphan + symbolless_dates.len();
    let orphan = orphan_groups;
    Ok(Expect { trades, dividends, skipped_min: skipped, // upper bound: every row that is not a trade, a dividend or an attached withholding may be
        // counted one by one (withholding rows without a dividend, blank rows, unmatched cancels)
        skipped_max: skipped + orphan_rows + symbolless_rows + blank_rows + unmatched, unknown_actions, unmatched_cancels: unmatched, orphan_nra: orphan })
}

fn trades_of(parsed: &[Transaction]) -> Vec<Trade> {
    let mut v: Vec<Trade> = parsed
        .iter()
        .filter_map(|t| match &t.operation {
            Operation::Buy { amount, price, fees } => Some(Trade { buy: true, date: t.date, sym: t.ticker.clone(), qty: norm(*amount), price: norm(price.amount), fees: norm(fees.amount) }),
            Operation::Sell { amount, price, fees } => Some(Trade { buy: false, date: t.date, sym: t.ticker.clone(), qty: norm(*amount), price: norm(price.amount), fees: norm(fees.amount) }),
            _ => None,
        })
        .collect();
    v.sort();
    v
}

const RULE18: &str = "generated BrokerageTransactions arrays: Buy/Sell/Cancel Sell (matching, duplicate, unmatched)/Stock Plan Activity with awards/4 dividend actions/2 withholding actions/Stock Split/8 non-CGT actions/unknown actions, amount spellings ($, commas, blanks, --, negatives, padding), plain and 'as of' dates, descriptions with '#', quotes, CR/LF, Unicode, mixed-case symbols; plus a row permutation and a cut of the date axis into chunks; non-trivial = export has a Cancel Sell, an 'as of' date, a description with a control character, or >=2 chunks; distinct by JSON hash";

pub fn check18(c: &Case18, obs: &mut Obs) -> Verdict {
    let (awards, atable) = awards_for(c.base, &c.rows);
    let to_json = |rows: &[&Row]| json!({"BrokerageTransactions": rows.iter().map(|r| row_json(c.base, r, &c.rows)).collect::<Vec<_>>()}).to_string();
    let all: Vec<&Row> = c.rows.iter().collect();
    let text = to_json(&all);
    obs.hash = crate::led::hash_str(&text);
    let has_cancel = c.rows.iter().any(|r| matches!(r.kind, Kind::CancelSell));
    let has_asof = c.rows.iter().any(|r| r.as_of_lag.is_some());
    let has_ctrl = c.rows.iter().any(|r| r.desc.chars().any(|ch| ch.is_control()));
    obs.class_if(has_cancel, "cancel_sell");
    obs.class_if(has_asof, "as_of_date");
    obs.class_if(has_ctrl, "control_char_in_description");
    let has_spa = c.rows.iter().any(|r| matches!(r.kind, Kind::Spa));
    let exp = match expectation(c.base, &c.rows, &atable) {
        Ok(e) => e,
        Err(e) => return Verdict::fail(e),
    };
    let awards_opt = if has_spa { Some(awards.as_str()) } else { None };
    let out = match convert(&text, awards_opt) {
        Err(p) => return Verdict::fail(format!("converter panicked: {} at {}", p.msg, p.loc)),
        Ok(Err(e)) => return Verdict::fail(format!("export inside the accepted domain rejected: {e}\n{text}")),
        Ok(Ok(o)) => o,
    };
    if obs.sample.is_none() && (has_cancel || has_asof) {
        obs.sample = Some(json!({"rows": serde_json::from_str::<Value>(&text).unwrap_or(Value::Null)}));
    }
    // 1. valid DSL whatever the free text contains
    let parsed = match tool::guarded(|| cgt_core::parser::parse_file(&out.cgt_content)) {
        Ok(Ok(p)) => p,
        Ok(Err(e)) => return Verdict::fail(format!("converter output is not valid DSL: {e}\n--- output ---\n{}", out.cgt_content)),
        Err(p) => return Verdict::fail(format!("parser panicked on converter output: {}", p.msg)),
    };
    // 2. BUY/SELL multiset
    let got = trades_of(&parsed);
    if got != exp.trades {
        let extra: Vec<&Trade> = got.iter().filter(|t| !exp.trades.contains(t)).collect();
        let lost: Vec<&Trade> = exp.trades.iter().filter(|t| !got.contains(t)).collect();
        return Verdict::fail(format!("BUY/SELL lines differ from the rows: unexpected {extra:?}, missing {lost:?} ({} vs {} lines)\n--- output ---\n{}", got.len(), exp.trades.len(), out.cgt_content));
    }
    for t in &parsed {
        if let Operation::Buy { price, fees, .. } | Operation::Sell { price, fees, .. } = &t.operation {
            if price.currency.code() != "USD" || (!fees.amount.is_zero() && fees.currency.code() != "USD") {
                return Verdict::fail("trade not in USD".to_string());
            }
        }
    }
    // 3. dividend and same-day withholding totals per (date, symbol)
    let mut got_div: BTreeMap<(NaiveDate, String), (Decimal, Decimal)> = BTreeMap::new();
    for t in &parsed {
        if let Operation::Dividend { total_value, tax_paid } = &t.operation {
            let e = got_div.entry((t.date, t.ticker.clone())).or_insert((Decimal::ZERO, Decimal::ZERO));
            e.0 += total_value.amount;
            e.1 += tax_paid.amount;
        }
    }
    if got_div != exp.dividends {
        return Verdict::fail(format!("dividend/withholding totals per (date, symbol) differ: got {got_div:?}, rows give {:?}\n--- output ---\n{}", exp.dividends, out.cgt_content));
    }
    // 4. nothing disappears silently
    if out.skipped_count < exp.skipped_min || out.skipped_count > exp.skipped_max {
        return Verdict::fail(format!("skipped_count {} but the export has {} non-CGT/split/unknown rows (+{} withholding rows without a dividend)", out.skipped_count, exp.skipped_min, exp.orphan_nra));
    }
    if exp.orphan_nra > 0 {
        obs.class("withholding_without_same_day_dividend");
        // every such row (one comment/warning per (date, symbol) group, or per symbol-less row)
        // counted as skipped, or at least as many warnings about withholding as there are groups
        let about = out.warnings.iter().filter(|w| w.to_lowercase().contains("withh") || w.to_lowercase().contains("nra") || w.to_lowercase().contains("tax")).count();
        let surfaced = out.skipped_count >= exp.skipped_min + exp.orphan_nra || about >= exp.orphan_nra;
        if !surfaced {
            return Verdict::Known {
                finding: "F15",
                what: "a withholding row (NRA Tax Adj / NRA Withholding) with no dividend of that symbol on the same date vanishes: not counted as skipped, no comment, no warning".into(),
            };
        }
    }
    // (the count above already says every unknown row was counted as skipped, which is one of the
    // two ways the statement allows; warnings and comments are then a bonus, not a demand)
    // a Cancel Sell that matches no Sell: counted as skipped, or a warning that mentions it
    let cancel_warnings = out.warnings.iter().filter(|w| w.to_lowercase().contains("cancel")).count();
    let counted_extra = out.skipped_count.saturating_sub(exp.skipped_min);
    if cancel_warnings < exp.unmatched_cancels && counted_extra < exp.unmatched_cancels {
        return Verdict::fail(format!("{} Cancel Sell rows match no sell, but only {} warnings mention a cancellation and {} extra rows are counted as skipped", exp.unmatched_cancels, cancel_warnings, counted_extra));
    }
    // 5. chronological
    for w in parsed.windows(2) {
        if w[0].date > w[1].date {
            return Verdict::fail(format!("output not in chronological order: {} before {}\n{}", w[0].date, w[1].date, out.cgt_content));
        }
    }
    // 6. row order does not matter
    let mut keyed: Vec<(u16, usize)> = (0..c.rows.len()).map(|i| (c.perm[i % c.perm.len()].wrapping_add(((i / c.perm.len()) as u16).wrapping_mul(7919)), i)).collect();
    keyed.sort();
    let permuted: Vec<&Row> = keyed.iter().map(|(_, i)| &c.rows[*i]).collect();
    let out_p = match convert(&to_json(&permuted), awards_opt) {
        Ok(Ok(o)) => o,
        Ok(Err(e)) => return Verdict::fail(format!("permuted export rejected: {e}")),
        Err(p) => return Verdict::fail(format!("converter panicked: {}", p.msg)),
    };
    let parsed_p = match cgt_core::parser::parse_file(&out_p.cgt_content) {
        Ok(p) => p,
        Err(e) => return Verdict::fail(format!("permuted export: output not valid DSL: {e}")),
    };
    if trades_of(&parsed_p) != got {
        return Verdict::fail(format!("row order changes the BUY/SELL lines\n--- a ---\n{}\n--- b ---\n{}", out.cgt_content, out_p.cgt_content));
    }
    let cfg = tool::all_years_config();
    let fx = crate::props::c15::fx();
    let mut f17 = false;
    let ra = tool::calc_with(&crate::led::from_core(&parsed), None, Some(fx), &cfg);
    let rb = tool::calc_with(&crate::led::from_core(&parsed_p), None, Some(fx), &cfg);
    match (&ra, &rb) {
        (tool::Outcome::Ok(a), tool::Outcome::Ok(b)) => {
            obs.class("report_computed");
            match tool::equivalent_or_f17(a, &crate::led::from_core(&parsed), b, &crate::led::from_core(&parsed_p), obs) {
                tool::Equiv::Same => {}
                tool::Equiv::F17 => f17 = true,
                tool::Equiv::Different(e) => {
                    return Verdict::fail(format!("row order changes the report: {e}\n--- a ---\n{}\n--- b ---\n{}", out.cgt_content, out_p.cgt_content));
                }
            }
        }
        (tool::Outcome::Err(_), tool::Outcome::Err(_)) => {}
        (tool::Outcome::Panic(p), _) | (_, tool::Outcome::Panic(p)) => {
            if !p.is_decimal_overflow() {
                return Verdict::fail(format!("calculate panicked: {}", p.msg));
            }
        }
        (a, b) => return Verdict::fail(format!("row order changes acceptance: {} vs {}", a.describe(), b.describe())),
    }
    // 7. date-disjoint chunks
    let max_off = c.rows.iter().map(|r| r.off).max().unwrap_or(0) as u32 + 10;
    let mut cuts: Vec<u32> = c.cuts.iter().map(|x| (*x as u32 * max_off) >> 16).collect();
    cuts.sort();
    cuts.dedup();
    let chunk_of = |r: &Row| -> usize {
        // cancel rows live with the sell they cancel (same date by construction); SPA rows are
        // keyed by deposit date
        let off = match &r.kind {
            Kind::CancelSell => {
                let sells: Vec<&Row> = c.rows.iter().filter(|x| matches!(x.kind, Kind::Sell)).collect();
                if !sells.is_empty() && r.target % 4 != 3 { sells[r.target as usize % sells.len()].off } else { r.off }
            }
            _ => r.off,
        } as u32;
        cuts.iter().filter(|c| **c <= off).count()
    };
    let nchunks = cuts.len() + 1;
    let mut chunk_trades: Vec<Trade> = vec![];
    let mut used_chunks = 0;
    let mut concat = String::new();
    for ci in 0..nchunks {
        let rows: Vec<&Row> = c.rows.iter().filter(|r| chunk_of(r) == ci).collect();
        if rows.is_empty() {
            continue;
        }
        used_chunks += 1;
        let spa = rows.iter().any(|r| matches!(r.kind, Kind::Spa));
        let o = match convert(&to_json(&rows), if spa { Some(awards.as_str()) } else { None }) {
            Ok(Ok(o)) => o,
            Ok(Err(e)) => return Verdict::fail(format!("chunk {ci} rejected: {e}")),
            Err(p) => return Verdict::fail(format!("converter panicked: {}", p.msg)),
        };
        concat.push_str(&o.cgt_content);
        concat.push('\n');
    }
    match cgt_core::parser::parse_file(&concat) {
        Ok(p) => chunk_trades.extend(trades_of(&p)),
        Err(e) => return Verdict::fail(format!("concatenated chunk outputs are not valid DSL: {e}")),
    }
    chunk_trades.sort();
    if chunk_trades != got {
        return Verdict::fail(format!("converting {used_chunks} date-disjoint chunks gives different BUY/SELL lines than converting the whole\n--- whole ---\n{}\n--- chunks ---\n{concat}", out.cgt_content));
    }
    obs.class_if(used_chunks >= 2, "2+_chunks");
    obs.nontrivial = has_cancel || has_asof || has_ctrl || used_chunks >= 2;
    if f17 {
        return tool::f17_verdict();
    }
    Verdict::Pass
}

fn run18(ctx: &Ctx) {
    ctx.run_prop("schwab_exports", RULE18, ctx.cases(3000, 3_000_000), strat18, check18);
}
fn replay18(name: &str, case: &Value) -> Option<Verdict> {
    match name {
        "schwab_exports" => Some(replay_case::<Case18, _>(case, check18).unwrap_or_else(Verdict::Fail)),
        _ => None,
    }
}

// ---------- helpers for other properties (C16) ----------

pub fn strat18_pub(t: Tier) -> BoxedStrategy<Case18> {
    strat18(t)
}

/// (transactions JSON, awards JSON) of a generated export
pub fn export_texts(c: &Case18) -> (String, String) {
    let (awards, _) = awards_for(c.base, &c.rows);
    let text = json!({"BrokerageTransactions": c.rows.iter().map(|r| row_json(c.base, r, &c.rows)).collect::<Vec<_>>()}).to_string();
    (text, awards)
}
