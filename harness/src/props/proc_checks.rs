//! Process-level sub-checks (real `cgt-tool` binary): CLI fault sequences and front-end strata
//! shared by several properties.

use crate::led::{Op, Tx};
use crate::lgen::{self, GenCfg, GenLedger, SplitMode};
use crate::proc::{self, CliOut, Scratch};
use crate::runner::{replay_case, Ctx, Obs, Tier, Verdict};
use proptest::prelude::*;
use serde::{Deserialize, Serialize};
use serde_json::Value;

pub fn embedded_cfg(t: Tier) -> GenCfg {
    GenCfg::basic().secs(3).days(2, t.pick(10, 20)).splits(SplitMode::Terminating).dividends(true).years(2015, 2023)
}

// ---------------------------------------------------------------------------------------------
// C15 (iii): CLI fault sequences
// ---------------------------------------------------------------------------------------------

#[derive(Clone, Debug, Serialize, Deserialize)]
pub struct FaultCase {
    pub gl: GenLedger,
    /// how the input is broken: 0 valid, 1 syntax error, 2 uncovered sale, 3 unknown-rate currency,
    /// 4 year outside the exemption table, 5 decimal overflow magnitudes
    pub input: u8,
    /// which fault / output arrangement
    pub fault: u8,
    pub fmt: u8,
}

const RULE_FAULTS: &str = "generated ledgers (valid, syntax error, uncovered sale, unrated currency, year without exemption) x output arrangements (stdout, --output new file, pre-existing file, missing directory, a directory as target, default PDF path present/absent, missing input file, bad --fx-folder) x formats; oracle: exit code in {0,1,2}, no signal; on failure stdout empty, --output target absent or byte-identical, existing default PDF untouched; non-trivial = the run fails, or writes a file; distinct by input hash + arrangement";

fn strat_fault(t: Tier) -> BoxedStrategy<FaultCase> {
    (lgen::ledger_strategy(embedded_cfg(t)), 0u8..6, 0u8..10, 0u8..3).prop_map(|(gl, input, fault, fmt)| FaultCase { gl, input, fault, fmt }).boxed()
}

fn fmt_name(f: u8) -> &'static str {
    ["plain", "json", "pdf"][f as usize % 3]
}

fn broken_text(c: &FaultCase) -> (String, bool) {
    // returns (text, expect_success)
    let mut l = c.gl.ledger.clone();
    match c.input {
        1 => {
            let mut lines = crate::led::dsl_lines(&l);
            let k = lines.len() / 2;
            if lines.is_empty() {
                lines.push("BROKEN".into());
            } else {
                lines[k] = lines[k].replacen(' ', " ?? ", 2);
            }
            (lines.join("\n") + "\n", false)
        }
        2 => {
            let date = l.iter().map(|t| t.date).max().unwrap_or(crate::led::d(2020, 1, 1)) + chrono::Duration::days(3);
            l.push(Tx::sell(date, "NEVERBOUGHT", 5.into(), 1.into(), 0.into()));
            (crate::led::to_dsl(&l) + "\n", false)
        }
        3 => {
            let date = crate::led::d(2020, 3, 3);
            l.push(Tx { date, ticker: "FXX".into(), op: Op::Buy { q: 1.into(), p: crate::led::Money::new(5.into(), "XAU"), f: crate::led::Money::zero() } });
            (crate::led::to_dsl(&l) + "\n", false)
        }
        4 => {
            l.push(Tx::buy(crate::led::d(2001, 5, 1), "OLD", 10.into(), 1.into(), 0.into()));
            l.push(Tx::sell(crate::led::d(2001, 6, 1), "OLD", 10.into(), 2.into(), 0.into()));
            (crate::led::to_dsl(&l) + "\n", false)
        }
        5 => {
            let big: rust_decimal::Decimal = "70000000000000000".parse().expect("lit");
            l.push(Tx::buy(crate::led::d(2020, 5, 1), "BIG", big, big, 0.into()));
            (crate::led::to_dsl(&l) + "\n", false)
        }
        _ => (crate::led::to_dsl(&l) + "\n", true),
    }
}

pub fn no_crash(o: &CliOut) -> Result<(), String> {
    if o.signal.is_some() {
        return Err(format!("killed by signal: {}", o.describe()));
    }
    // 101 = Rust panic, 134 = abort, 139 = segfault reported by a shell; any other exit code is
    // a clean success or failure as far as the statement goes
    match o.code {
        Some(101) | Some(134) | Some(139) | None => Err(format!("abnormal exit: {}", o.describe())),
        Some(_) if o.stderr_s().contains("panicked at") => Err(format!("panic message: {}", o.describe())),
        Some(_) => Ok(()),
    }
}

fn is_f7_cli(o: &CliOut) -> bool {
    let e = o.stderr_s();
    o.code == Some(101) && e.contains("overflowed") && e.contains("rust_decimal")
}

pub fn check_fault(c: &FaultCase, obs: &mut Obs) -> Verdict {
    if lgen::has_excluded_placement(&c.gl.ledger) {
        obs.excluded += 1;
        return Verdict::Pass;
    }
    let (text, input_ok) = broken_text(c);
    obs.hash = crate::led::hash_str(&format!("{text}#{}#{}", c.fault, c.fmt));
    let sc = Scratch::new("fault");
    let input = sc.write("in.cgt", &text);
    let input_s = input.to_string_lossy().to_string();
    let fmt = fmt_name(c.fmt);
    obs.class(&format!("input_{}", c.input));
    obs.class(&format!("fault_{}", c.fault));
    obs.class(&format!("fmt_{fmt}"));
    if obs.sample.is_none() {
        obs.sample = Some(serde_json::json!({"input_kind": c.input, "fault": c.fault, "format": fmt, "text_head": text.lines().take(4).collect::<Vec<_>>()}));
    }
    let f7 = || crate::props::c15::f7(&crate::tool::PanicInfo { msg: "Multiplication overflowed".into(), loc: "rust_decimal (CLI stderr)".into() });
    let fail = |what: &str, o: &CliOut| Verdict::fail(format!("{what}: {}\n--- input ({}) ---\n{}", o.describe(), c.input, text));
    match c.fault {
        // plain run to stdout
        0 => {
            if fmt == "pdf" {
                // default PDF path, absent: must be created on success, absent on failure
                let o = proc::run_cli(&sc, &["report", &input_s, "--format", "pdf"]);
                if is_f7_cli(&o) {
                    return f7();
                }
                if let Err(e) = no_crash(&o) {
                    return fail(&e, &o);
                }
                let pdf = sc.path("in.pdf");
                if o.ok() != input_ok {
                    return fail("unexpected exit status", &o);
                }
                if o.ok() {
                    obs.nontrivial = true;
                    let bytes = std::fs::read(&pdf).unwrap_or_default();
                    if !bytes.starts_with(b"%PDF") {
                        return fail("PDF run succeeded but the default path holds no PDF", &o);
                    }
                } else {
                    obs.nontrivial = true;
                    if pdf.exists() || !o.stdout.is_empty() {
                        return fail("failed PDF run left a file or wrote to stdout", &o);
                    }
                }
                return Verdict::Pass;
            }
            let o = proc::run_cli(&sc, &["report", &input_s, "--format", fmt]);
            if is_f7_cli(&o) {
                return f7();
            }
            if let Err(e) = no_crash(&o) {
                return fail(&e, &o);
            }
            if o.ok() != input_ok {
                return fail("unexpected exit status", &o);
            }
            if !o.ok() {
                obs.nontrivial = true;
                if !o.stdout.is_empty() {
                    return fail("failed run wrote to stdout", &o);
                }
                if o.stderr.is_empty() {
                    return fail("failed run printed no error", &o);
                }
            } else if o.stdout.is_empty() {
                return fail("successful run printed nothing", &o);
            }
            Verdict::Pass
        }
        // --output to a new file / pre-existing file
        1 | 2 => {
            let out = sc.path("out.bin");
            let prior: Option<Vec<u8>> = if c.fault == 2 {
                std::fs::write(&out, b"PRIOR CONTENT\n").ok();
                Some(b"PRIOR CONTENT\n".to_vec())
            } else {
                None
            };
            let out_s = out.to_string_lossy().to_string();
            let o = proc::run_cli(&sc, &["report", &input_s, "--format", fmt, "--output", &out_s]);
            if is_f7_cli(&o) {
                return f7();
            }
            if let Err(e) = no_crash(&o) {
                return fail(&e, &o);
            }
            if o.ok() != input_ok {
                return fail("unexpected exit status", &o);
            }
            obs.nontrivial = true;
            if o.ok() {
                let now = std::fs::read(&out).unwrap_or_default();
                if now.is_empty() || Some(&now) == prior.as_ref() {
                    return fail("successful run did not write --output", &o);
                }
                if fmt != "pdf" && !o.stdout.is_empty() {
                    return fail("report went to stdout although --output was given", &o);
                }
            } else {
                if !o.stdout.is_empty() {
                    return fail("failed run wrote to stdout", &o);
                }
                match (&prior, std::fs::read(&out).ok()) {
                    (None, None) => {}
                    (Some(p), Some(n)) if *p == n => {}
                    (p, n) => {
                        return Verdict::fail(format!(
                            "failed run touched the --output path: before {:?}, after {:?} bytes\n{}",
                            p.as_ref().map(|x| x.len()),
                            n.as_ref().map(|x| x.len()),
                            o.describe()
                        ))
                    }
                }
            }
            Verdict::Pass
        }
        // --output into a missing directory / onto a directory
        3 | 4 => {
            let target = if c.fault == 3 { sc.path("no/such/dir/out.txt") } else { sc.path("adir") };
            if c.fault == 4 {
                let _ = std::fs::create_dir_all(&target);
            }
            let t = target.to_string_lossy().to_string();
            let o = proc::run_cli(&sc, &["report", &input_s, "--format", fmt, "--output", &t]);
            if is_f7_cli(&o) {
                return f7();
            }
            if let Err(e) = no_crash(&o) {
                return fail(&e, &o);
            }
            obs.nontrivial = true;
            if o.ok() {
                return fail("run succeeded although the --output target cannot be written", &o);
            }
            if !o.stdout.is_empty() {
                return fail("failed run wrote to stdout", &o);
            }
            if c.fault == 3 && sc.path("no").exists() {
                return fail("failed run created directories", &o);
            }
            Verdict::Pass
        }
        // default PDF path already exists: never replaced (single input: <input>.pdf; several
        // inputs: report.pdf in the working directory)
        5 => {
            // the protection only matters for a run that would otherwise succeed: use the valid ledger
            let multi = (c.fmt as usize + c.input as usize) % 2 == 1;
            let valid = crate::led::to_dsl(&c.gl.ledger) + "\n";
            let input_s = sc.write("in.cgt", &valid).to_string_lossy().to_string();
            let pdf = if multi { sc.path("report.pdf") } else { sc.path("in.pdf") };
            std::fs::write(&pdf, b"OLD PDF").ok();
            let extra = sc.write("extra.cgt", "# second input file\n").to_string_lossy().to_string();
            let o = if multi { proc::run_cli(&sc, &["report", &input_s, &extra, "--format", "pdf"]) } else { proc::run_cli(&sc, &["report", &input_s, "--format", "pdf"]) };
            obs.class(if multi { "default_pdf_several_inputs" } else { "default_pdf_single_input" });
            if is_f7_cli(&o) {
                return f7();
            }
            if let Err(e) = no_crash(&o) {
                return fail(&e, &o);
            }
            obs.nontrivial = true;
            if o.ok() {
                return fail("PDF run succeeded although the default path exists", &o);
            }
            if std::fs::read(&pdf).unwrap_or_default() != b"OLD PDF" {
                return fail("existing default PDF was replaced", &o);
            }
            if !o.stdout.is_empty() {
                return fail("failed run wrote to stdout", &o);
            }
            Verdict::Pass
        }
        // missing input file (alone or next to a good one)
        6 => {
            let missing = sc.path("missing.cgt").to_string_lossy().to_string();
            for args in [vec!["report", missing.as_str(), "--format", fmt], vec!["report", input_s.as_str(), missing.as_str(), "--format", fmt], vec!["parse", missing.as_str()]] {
                if fmt == "pdf" && args[0] == "report" {
                    continue;
                }
                let o = proc::run_cli(&sc, &args);
                if let Err(e) = no_crash(&o) {
                    return fail(&e, &o);
                }
                if o.ok() || !o.stdout.is_empty() || o.stderr.is_empty() {
                    return fail("missing input file not reported cleanly", &o);
                }
            }
            obs.nontrivial = true;
            Verdict::Pass
        }
        // bad --fx-folder: missing, or containing a malformed file
        7 => {
            let bad = if c.fmt % 2 == 0 {
                sc.path("nofx").to_string_lossy().to_string()
            } else {
                sc.write("fx/2020-01.xml", "<exchangeRateMonthList Period=\"01/Feb/2020 to 29/Feb/2020\"></exchangeRateMonthList>");
                sc.path("fx").to_string_lossy().to_string()
            };
            let o = proc::run_cli(&sc, &["report", &input_s, "--fx-folder", &bad]);
            if let Err(e) = no_crash(&o) {
                return fail(&e, &o);
            }
            obs.nontrivial = true;
            if o.ok() || !o.stdout.is_empty() || o.stderr.is_empty() {
                return fail("bad --fx-folder not reported cleanly", &o);
            }
            Verdict::Pass
        }
        // standard output cannot be written (full device): report/parse must end with a clean
        // error or succeed, never with a panic
        9 => {
            let argsets: Vec<Vec<&str>> = if fmt == "pdf" { vec![vec!["parse", input_s.as_str()]] } else { vec![vec!["report", input_s.as_str(), "--format", fmt], vec!["parse", input_s.as_str()]] };
            for args in argsets {
                let o = proc::run_cli_stdout_unwritable(&sc, &args);
                if is_f7_cli(&o) {
                    return f7();
                }
                if let Err(e) = no_crash(&o) {
                    return fail(&format!("standard output unwritable: {e}"), &o);
                }
                if o.stderr_s().contains("panicked") {
                    return fail("standard output unwritable: panic message", &o);
                }
                let produces_output = args[0] == "parse" && c.input != 1 || args[0] == "report" && input_ok;
                if produces_output && o.ok() {
                    return fail("run reports success although nothing could be written to standard output", &o);
                }
                if !o.ok() && o.stderr.is_empty() {
                    return fail("failed run printed no error", &o);
                }
            }
            // the converter prints its warnings to standard error: an unwritable standard error
            // must not turn a conversion into a panic either
            let export = r#"{"BrokerageTransactions":[{"Date":"03/02/2020","Action":"Reinvest Shares","Symbol":"ACME","Description":"x","Quantity":"1","Price":"","Fees & Comm":"","Amount":"$1.00"},{"Date":"03/03/2020","Action":"Buy","Symbol":"ACME","Description":"x","Quantity":"2","Price":"$3.00","Fees & Comm":"","Amount":"-$6.00"}]}"#;
            let ex = sc.write("export.json", export).to_string_lossy().to_string();
            let o = proc::run_cli_stderr_unwritable(&sc, &["convert", "schwab", &ex]);
            if let Err(e) = no_crash(&o) {
                return fail(&format!("convert with a warning and an unwritable standard error: {e}"), &o);
            }
            if o.ok() && !o.stdout_s().contains("BUY ACME 2") {
                return fail("convert reports success but the converted ledger is not on standard output", &o);
            }
            obs.nontrivial = true;
            Verdict::Pass
        }
        // parse command
        _ => {
            let o = proc::run_cli(&sc, &["parse", &input_s]);
            if let Err(e) = no_crash(&o) {
                return fail(&e, &o);
            }
            let parse_ok = c.input != 1;
            if o.ok() != parse_ok {
                return fail("unexpected exit status of parse", &o);
            }
            if !o.ok() {
                obs.nontrivial = true;
                if !o.stdout.is_empty() {
                    return fail("failed parse wrote to stdout", &o);
                }
                // the error names the line
                if !o.stderr_s().contains("-->") {
                    return fail("parse error does not identify a position", &o);
                }
            } else if serde_json::from_slice::<Value>(&o.stdout).is_err() {
                return fail("parse output is not JSON", &o);
            }
            Verdict::Pass
        }
    }
}

pub fn c15_cli_faults(ctx: &Ctx) -> bool {
    ctx.shrink_iters.store(200, std::sync::atomic::Ordering::Relaxed);
    ctx.run_prop("cli_fault_sequences", RULE_FAULTS, ctx.cases(30, 1600), strat_fault, check_fault)
}

pub fn replay(name: &str, case: &Value) -> Option<Verdict> {
    match name {
        "cli_fault_sequences" => Some(replay_case::<FaultCase, _>(case, check_fault).unwrap_or_else(Verdict::Fail)),
        "mcp_figures" => Some(replay_case::<crate::props::c17::Case, _>(case, check_c17_mcp).unwrap_or_else(Verdict::Fail)),
        "front_ends" => Some(replay_case::<crate::props::c05::Case, _>(case, check_c05_front).unwrap_or_else(Verdict::Fail)),
        "cli_several_files" => Some(replay_case::<crate::props::c06::Case, _>(case, check_c06_cli).unwrap_or_else(Verdict::Fail)),
        "cli_year_and_overrides" => Some(replay_case::<FrontCase, _>(case, check_c07_cli).unwrap_or_else(Verdict::Fail)),
        "cli_json_through_mcp" => Some(replay_case::<FrontCase, _>(case, check_c14_mcp).unwrap_or_else(Verdict::Fail)),
        "cli_fx_folder" => Some(replay_case::<crate::props::c08::Case, _>(case, check_c08_cli).unwrap_or_else(Verdict::Fail)),
        _ => None,
    }
}

// ---------------------------------------------------------------------------------------------
// C08 (e): CLI --fx-folder and MCP get_fx_rate agree with the independent table
// ---------------------------------------------------------------------------------------------

const RULE_C08_CLI: &str = "process level: `cgt-tool report foreign.cgt --fx-folder DIR --format json` must equal `cgt-tool report gbp_twin.cgt --format json` (minus the echoed transactions), folder files written with real modification times; a needed missing rate must fail with empty stdout naming currency and month; non-trivial = the folder overrides a month the ledger uses or a rate is missing; distinct by DSL hash + folder";

pub fn check_c08_cli(c: &crate::props::c08::Case, obs: &mut Obs) -> Verdict {
    use crate::props::c08;
    use chrono::Datelike;
    if lgen::has_excluded_placement(&c.gl.ledger) {
        obs.excluded += 1;
        return Verdict::Pass;
    }
    let mut ledger = c08::apply_currencies(c);
    // the DSL writer omits a zero FEES/TAX clause, so through the CLI such a field has no currency
    for t in ledger.iter_mut() {
        let ms = t.monies_mut();
        if ms.len() == 2 && ms[1].a.is_zero() {
            ms.into_iter().nth(1).expect("second").c = "GBP".into();
        }
    }
    let dsl = crate::led::to_dsl(&ledger);
    obs.hash = crate::led::hash_str(&format!("{dsl}#{:?}", c.folder));
    let table = c08::expected_table(&c.folder);
    let sc = Scratch::new("c08");
    sc.write_all_years_config();
    for (i, f) in c.folder.iter().enumerate() {
        // two files for one month need distinct names: use the two name styles / a sub-index
        let name = format!("fx/{}", c08::file_name(f));
        let path = if sc.path(&name).exists() { sc.path(&format!("fx/dup{i}_{:04}-{:02}.xml", f.year, f.month)) } else { sc.path(&name) };
        let rel = path.strip_prefix(&sc.dir).expect("prefix").to_string_lossy().to_string();
        let p = sc.write(&rel, &crate::fxtable::make_xml(f.year, f.month, &f.rows));
        if let Ok(file) = std::fs::File::options().write(true).open(&p) {
            let secs = f.modified.unwrap_or(0).max(1);
            let _ = file.set_modified(std::time::UNIX_EPOCH + std::time::Duration::from_secs(secs));
        }
    }
    if c.folder.is_empty() {
        let _ = std::fs::create_dir_all(sc.path("fx"));
    }
    // duplicates with equal or missing mtimes have no defined winner on disk: skip those
    let mut seen: std::collections::BTreeMap<(i32, u32), Vec<u64>> = Default::default();
    for f in &c.folder {
        seen.entry((f.year, f.month)).or_default().push(f.modified.unwrap_or(0).max(1));
    }
    if seen.values().any(|v| {
        let mut w = v.clone();
        w.sort();
        w.dedup();
        w.len() != v.len()
    }) {
        obs.excluded += 1;
        return Verdict::Pass;
    }
    let needed: Vec<(String, i32, u32)> = ledger.iter().flat_map(|t| t.monies().into_iter().filter(|m| !m.is_gbp()).map(|m| (m.c.clone(), t.date.year(), t.date.month())).collect::<Vec<_>>()).collect();
    let missing: Vec<&(String, i32, u32)> = needed.iter().filter(|k| !table.contains_key(*k)).collect();
    let overrides_used = c.folder.iter().any(|f| f.rows.iter().any(|(code, _)| needed.contains(&(code.clone(), f.year, f.month))));
    obs.nontrivial = overrides_used || !missing.is_empty();
    obs.class_if(overrides_used, "folder_overrides_a_used_month");
    obs.class_if(!missing.is_empty(), "needs_a_missing_rate");
    if obs.sample.is_none() {
        obs.sample = Some(serde_json::json!({"ledger": crate::tool::sample_of(&ledger), "folder": c.folder.iter().map(c08::file_name).collect::<Vec<_>>()}));
    }
    let input = sc.write("in.cgt", &(dsl.clone() + "\n"));
    let fxdir = sc.path("fx").to_string_lossy().to_string();
    let a = proc::run_cli(&sc, &["report", &input.to_string_lossy(), "--fx-folder", &fxdir, "--format", "json"]);
    if let Err(e) = no_crash(&a) {
        if a.code == Some(101) && a.stderr_s().contains("overflowed") {
            return Verdict::Pass;
        }
        return Verdict::fail(e);
    }
    if !missing.is_empty() {
        if a.ok() || !a.stdout.is_empty() {
            return Verdict::fail(format!("rate missing for {missing:?} but the CLI produced output: {}\n{dsl}", a.describe()));
        }
        let e = a.stderr_s();
        if !missing.iter().any(|k| e.contains(&k.0) && e.contains(&format!("{}-{:02}", k.1, k.2))) {
            return Verdict::fail(format!("CLI error does not name a missing currency and month {missing:?}: {e}"));
        }
        return Verdict::Pass;
    }
    let twin: Vec<Tx> = ledger
        .iter()
        .map(|t| {
            let mut t2 = t.clone();
            for m in t2.monies_mut() {
                if !m.is_gbp() {
                    let r = table[&(m.c.clone(), t.date.year(), t.date.month())];
                    *m = crate::led::Money::gbp(m.a / r);
                }
            }
            t2
        })
        .collect();
    let twin_in = sc.write("twin.cgt", &(crate::led::to_dsl(&twin) + "\n"));
    let b = proc::run_cli(&sc, &["report", &twin_in.to_string_lossy(), "--format", "json"]);
    if a.ok() != b.ok() {
        return Verdict::fail(format!("foreign ledger: {} but GBP twin: {}\n{dsl}", a.describe(), b.describe()));
    }
    if !a.ok() {
        obs.class("both_rejected");
        return Verdict::Pass;
    }
    let strip = |o: &CliOut| -> Result<Value, String> {
        let mut v: Value = serde_json::from_slice(&o.stdout).map_err(|e| format!("output is not JSON: {e}"))?;
        if let Some(m) = v.as_object_mut() {
            m.remove("transactions");
        }
        Ok(v)
    };
    match (strip(&a), strip(&b)) {
        (Ok(x), Ok(y)) => {
            if x != y {
                return Verdict::fail(format!("CLI report with --fx-folder differs from the GBP twin's report\n--- ledger ---\n{dsl}\n--- a ---\n{x}\n--- b ---\n{y}"));
            }
            Verdict::Pass
        }
        (Err(e), _) | (_, Err(e)) => Verdict::fail(e),
    }
}

fn strat_c08_cli(t: Tier) -> BoxedStrategy<crate::props::c08::Case> {
    // reuse the aimed strategy through replay-compatible construction
    use chrono::Datelike;
    let cfg = GenCfg::basic().secs(2).days(2, t.pick(8, 14)).dividends(true).years(2014, 2026);
    (
        lgen::ledger_strategy(cfg),
        proptest::collection::vec(0u8..16, 24),
        proptest::collection::vec(
            (2014i32..2028, 1u32..13, any::<bool>(), prop_oneof![Just(None), (1_000u64..2_000_000_000).prop_map(Some)], proptest::collection::vec((0usize..10, 1u32..400_000, 0u32..5), 1..4)),
            0..4,
        ),
        any::<bool>(),
    )
        .prop_map(|(gl, cur, files, aim)| {
            const CURS: [&str; 10] = ["USD", "EUR", "JPY", "CHF", "AUD", "CAD", "INR", "ZAR", "SEK", "HKD"];
            let months: Vec<(i32, u32)> = gl.ledger.iter().map(|t| (t.date.year(), t.date.month())).collect();
            let folder = files
                .into_iter()
                .enumerate()
                .map(|(i, (mut year, mut month, prefixed, modified, rows))| {
                    if aim && !months.is_empty() {
                        let (y, m) = months[(i * 7 + month as usize) % months.len()];
                        year = y;
                        month = m;
                    }
                    crate::props::c08::FolderFile { year, month, prefixed, modified, rows: rows.into_iter().map(|(c, m, s)| (CURS[c].to_string(), rust_decimal::Decimal::new(m as i64, s).to_string())).collect() }
                })
                .collect();
            crate::props::c08::Case { gl, cur, folder }
        })
        .boxed()
}

pub fn c08_cli(ctx: &Ctx) -> bool {
    ctx.shrink_iters.store(200, std::sync::atomic::Ordering::Relaxed);
    ctx.run_prop("cli_fx_folder", RULE_C08_CLI, ctx.cases(10, 600), strat_c08_cli, check_c08_cli)
}

// ---------------------------------------------------------------------------------------------
// C17: MCP calculate_report / explain_matching show the computed figures
// ---------------------------------------------------------------------------------------------

const RULE_C17_MCP: &str = "process level: one MCP session per generated ledger; calculate_report's JSON is checked figure by figure against the report computed through the library (same rules as the JSON front-end), and explain_matching for every disposal must show the computed quantity, proceeds, leg quantities/costs/gains in full; non-trivial = the ledger has >=1 disposal; distinct by DSL hash";

pub fn check_c17_mcp(c: &crate::props::c17::Case, obs: &mut Obs) -> Verdict {
    use crate::proc::{tool_call, tool_text, Mcp};
    use std::time::Duration;
    let ledger = &c.gl.ledger;
    if lgen::has_excluded_placement(ledger) {
        obs.excluded += 1;
        return Verdict::Pass;
    }
    let dsl = crate::led::to_dsl(ledger);
    obs.hash = crate::led::hash_str(&dsl);
    let cfg = cgt_core::Config::embedded().unwrap_or_default();
    let fx = crate::props::c15::fx();
    let r = match crate::tool::calc_with(ledger, None, Some(fx), &cfg) {
        crate::tool::Outcome::Ok(r) => r,
        _ => {
            obs.class("tool_rejected");
            return Verdict::Pass;
        }
    };
    obs.nontrivial = r.tax_years.iter().any(|y| !y.disposals.is_empty());
    if obs.sample.is_none() {
        obs.sample = Some(crate::tool::sample_of(ledger));
    }
    let mut m = Mcp::start(false);
    if !m.handshake() {
        proc::inconclusive("MCP handshake failed");
    }
    let use_json = c.mode % 2 == 0;
    let input = if use_json { serde_json::to_string(&crate::led::to_core(ledger)).unwrap_or_default() } else { dsl.clone() };
    m.send(&tool_call(1, "calculate_report", serde_json::json!({"transactions": input})));
    let Some(resp) = m.recv(Duration::from_secs(60)) else {
        proc::inconclusive("MCP calculate_report: no answer within 60 s (liveness is C20's property)");
    };
    let text = match tool_text(&resp) {
        Ok(t) => t,
        Err(e) => return Verdict::fail(format!("calculate_report failed although the library accepts the ledger: {e}\n{dsl}")),
    };
    let j: Value = match serde_json::from_str(&text) {
        Ok(j) => j,
        Err(e) => return Verdict::fail(format!("calculate_report result is not JSON: {e}")),
    };
    if let Err(e) = crate::props::c17::check_json(&r, &j) {
        return Verdict::fail(format!("MCP calculate_report: {e}\n{dsl}"));
    }
    let mut id = 2;
    for y in &r.tax_years {
        for d in &y.disposals {
            m.send(&tool_call(id, "explain_matching", serde_json::json!({"transactions": input, "disposal_date": d.date.to_string(), "ticker": d.ticker.to_lowercase()})));
            let Some(resp) = m.recv(Duration::from_secs(60)) else {
                proc::inconclusive("MCP explain_matching: no answer within 60 s (liveness is C20's property)");
            };
            id += 1;
            let text = match tool_text(&resp) {
                Ok(t) => t,
                Err(e) => return Verdict::fail(format!("explain_matching cannot explain disposal {} {} listed by calculate_report: {e}\n{dsl}", d.ticker, d.date)),
            };
            let e: Value = serde_json::from_str(&text).unwrap_or(Value::Null);
            let s = |k: &str| e.get(k).and_then(|v| v.as_str()).unwrap_or("").to_string();
            let dec = |t: String| t.parse::<rust_decimal::Decimal>().ok();
            if s("disposal_date") != d.date.to_string() || s("ticker") != d.ticker {
                return Verdict::fail(format!("explain_matching answered for {} {}, asked {} {}", s("ticker"), s("disposal_date"), d.ticker, d.date));
            }
            // money: the computed value in full, or rounded to pence half away from zero
            let money_eq = |shown: Option<rust_decimal::Decimal>, v: rust_decimal::Decimal| match shown {
                Some(x) => x == v || x == v.round_dp_with_strategy(2, rust_decimal::RoundingStrategy::MidpointAwayFromZero),
                None => false,
            };
            if dec(s("quantity")) != Some(d.quantity) || !money_eq(dec(s("proceeds")), d.proceeds) || !money_eq(dec(s("total_gain_or_loss")), d.net_gain_or_loss()) {
                return Verdict::fail(format!("explain_matching {} {}: quantity/proceeds/total {} / {} / {} but computed {} / {} / {}", d.ticker, d.date, s("quantity"), s("proceeds"), s("total_gain_or_loss"), d.quantity, d.proceeds, d.net_gain_or_loss()));
            }
            let legs = e.get("matches").and_then(|x| x.as_array()).cloned().unwrap_or_default();
            if legs.len() != d.matches.len() {
                return Verdict::fail(format!("explain_matching {} {}: {} legs, computed {}", d.ticker, d.date, legs.len(), d.matches.len()));
            }
            for (jl, ml) in legs.iter().zip(d.matches.iter()) {
                let g = |k: &str| jl.get(k).and_then(|v| v.as_str()).unwrap_or("").to_string();
                let rule = match ml.rule {
                    cgt_core::MatchRule::SameDay => "Same Day",
                    cgt_core::MatchRule::BedAndBreakfast => "Bed & Breakfast",
                    cgt_core::MatchRule::Section104 => "Section 104",
                };
                if g("rule") != rule || dec(g("quantity")) != Some(ml.quantity) || !money_eq(dec(g("allowable_cost")), ml.allowable_cost) || !money_eq(dec(g("gain_or_loss")), ml.gain_or_loss) {
                    return Verdict::fail(format!("explain_matching {} {}: leg {jl} but computed {ml:?}", d.ticker, d.date));
                }
                let acq = jl.get("acquisition_date").and_then(|v| v.as_str()).map(String::from);
                if acq != ml.acquisition_date.map(|x| x.to_string()) {
                    return Verdict::fail(format!("explain_matching {} {}: leg date {acq:?}, computed {:?}", d.ticker, d.date, ml.acquisition_date));
                }
            }
        }
    }
    let _ = m.close(Duration::from_secs(20));
    Verdict::Pass
}

fn strat_c17_mcp(t: Tier) -> BoxedStrategy<crate::props::c17::Case> {
    let cfg = GenCfg::basic().secs(2).days(2, t.pick(8, 14)).splits(SplitMode::Terminating).dividends(true).years(2015, 2023);
    (lgen::ledger_strategy(cfg), 0u8..2).prop_map(|(gl, mode)| crate::props::c17::Case { gl, mode, cur: vec![] }).boxed()
}

pub fn c17_mcp(ctx: &Ctx) -> bool {
    ctx.shrink_iters.store(60, std::sync::atomic::Ordering::Relaxed);
    ctx.run_prop("mcp_figures", RULE_C17_MCP, ctx.cases(4, 400), strat_c17_mcp, check_c17_mcp)
}

// ---------------------------------------------------------------------------------------------
// Front-end strata for C04 / C05 / C06 / C07 / C14 (real binary, MCP server)
// ---------------------------------------------------------------------------------------------

#[derive(Clone, Debug, Serialize, Deserialize)]
pub struct FrontCase {
    pub gl: GenLedger,
    pub sel: u16,
}

fn strat_front(t: Tier) -> BoxedStrategy<FrontCase> {
    (lgen::ledger_strategy(embedded_cfg(t)), any::<u16>()).prop_map(|(gl, sel)| FrontCase { gl, sel }).boxed()
}

fn json_minus_tx(o: &CliOut) -> Result<Value, String> {
    let mut v: Value = serde_json::from_slice(&o.stdout).map_err(|e| format!("stdout is not JSON: {e}; {}", o.describe()))?;
    if let Some(m) = v.as_object_mut() {
        m.remove("transactions");
    }
    Ok(v)
}

/// "2024-03-05" -> "05/03/2024"
fn uk_form(iso: &str) -> String {
    let p: Vec<&str> = iso.split('-').collect();
    if p.len() == 3 { format!("{}/{}/{}", p[2], p[1], p[0]) } else { iso.to_string() }
}

fn mcp_one(tool: &str, args: Value) -> Result<Result<String, String>, String> {
    use std::time::Duration;
    let mut m = crate::proc::Mcp::start(false);
    if !m.handshake() {
        proc::inconclusive("MCP handshake failed");
    }
    m.send(&crate::proc::tool_call(1, tool, args));
    // liveness of the server is C20's property: here a request that stays unanswered for a
    // minute, or a server that has to be killed, only means this stratum cannot judge (exit 2)
    let Some(resp) = m.recv(Duration::from_secs(60)) else {
        proc::inconclusive(&format!("MCP {tool}: no answer within 60 s"));
    };
    let r = crate::proc::tool_text(&resp);
    let _ = m.close(Duration::from_secs(20));
    Ok(r)
}

// ----- C05: no report, partial or otherwise, from any front-end when a sale is uncovered -----

const RULE_C05_FRONT: &str = "process level: accepted ledgers and broken variants (C05 mutations) through `cgt-tool report` in plain/json/pdf with and without --output, and through MCP calculate_report and explain_matching (asked about a sale of a security that is itself covered, when there is one); covered => success with output; uncovered => non-zero exit, empty stdout, no --output file, error naming security and ISO date, MCP error response; non-trivial = the ledger is uncovered; distinct by DSL hash";

pub fn check_c05_front(c: &crate::props::c05::Case, obs: &mut Obs) -> Verdict {
    let ledger = crate::props::c05::mutate(c);
    // the MCP tools refuse an empty transaction list by design (C20: "for a non-empty ledger")
    if lgen::has_excluded_placement(&ledger) || ledger.is_empty() {
        obs.excluded += 1;
        return Verdict::Pass;
    }
    let dsl = crate::led::to_dsl(&ledger) + "\n";
    obs.hash = crate::led::hash_str(&dsl);
    let Ok(m) = crate::model::evaluate(&ledger, &crate::model::NoFx, crate::model::Quirks::default()) else { return Verdict::Pass };
    let covered = m.covered();
    obs.nontrivial = !covered;
    obs.class(if covered { "covered" } else { "uncovered" });
    // library verdict (C05 proper judges it; here the front-ends must follow it)
    let lib_ok = matches!(crate::tool::calc_with(&ledger, None, Some(crate::props::c15::fx()), &cgt_core::Config::embedded().unwrap_or_default()), crate::tool::Outcome::Ok(_));
    if lib_ok != covered {
        obs.class("library_verdict_differs_from_model");
        return Verdict::Pass;
    }
    let uncovered: Vec<(String, String)> = m.secs.iter().flat_map(|(k, s)| s.uncovered.iter().map(move |(d, _)| (k.clone(), d.to_string()))).collect();
    if obs.sample.is_none() && !covered {
        obs.sample = Some(crate::tool::sample_of(&ledger));
    }
    let sc = Scratch::new("c05f");
    let input = sc.write("in.cgt", &dsl).to_string_lossy().to_string();
    for (fi, fmt) in ["plain", "json", "pdf"].iter().enumerate() {
        let with_output = (c.idx as usize + fi) % 2 == 0 || *fmt == "pdf";
        let out_path = sc.path(&format!("out.{fmt}"));
        let out_s = out_path.to_string_lossy().to_string();
        let mut args = vec!["report", input.as_str(), "--format", fmt];
        if with_output {
            args.push("--output");
            args.push(&out_s);
        }
        let o = proc::run_cli(&sc, &args);
        if let Err(e) = no_crash(&o) {
            return Verdict::fail(format!("{fmt}: {e}"));
        }
        if covered {
            if !o.ok() {
                return Verdict::fail(format!("{fmt}: covered ledger refused by the CLI: {}\n{dsl}", o.describe()));
            }
            let produced = if with_output { std::fs::read(&out_path).map(|b| !b.is_empty()).unwrap_or(false) } else { !o.stdout.is_empty() };
            if !produced {
                return Verdict::fail(format!("{fmt}: success but no report produced"));
            }
        } else {
            if o.ok() {
                return Verdict::fail(format!("{fmt}: uncovered ledger produced a report\n{dsl}"));
            }
            if !o.stdout.is_empty() {
                return Verdict::fail(format!("{fmt}: failed run wrote {} bytes to stdout (partial report?)", o.stdout.len()));
            }
            if out_path.exists() {
                return Verdict::fail(format!("{fmt}: failed run left an --output file"));
            }
            let e = o.stderr_s();
            if !uncovered.iter().any(|(k, d)| e.to_uppercase().contains(k.to_uppercase().as_str()) && (e.contains(d.as_str()) || e.contains(&uk_form(d)))) {
                return Verdict::fail(format!("{fmt}: error does not name an uncovered security and date {uncovered:?}: {e}"));
            }
        }
    }
    // MCP explain_matching is a front-end too: asked about any sale of the ledger (preferably one
    // of a security that is itself covered), it must refuse an uncovered ledger as a whole
    let sells: Vec<(String, String)> = {
        let mut v: Vec<(String, String)> = ledger.iter().filter(|t| matches!(t.op, crate::led::Op::Sell { .. })).map(|t| (t.ticker.to_uppercase(), t.date.to_string())).collect();
        v.sort();
        v.dedup();
        v
    };
    let other: Vec<&(String, String)> = sells.iter().filter(|(k, _)| !uncovered.iter().any(|(u, _)| u == k)).collect();
    let pick = if !other.is_empty() { Some(other[c.idx as usize % other.len()].clone()) } else if !sells.is_empty() { Some(sells[c.idx as usize % sells.len()].clone()) } else { None };
    if let Some((tk, date)) = pick {
        obs.class_if(!covered && !other.is_empty(), "explain_asked_about_a_covered_security_of_an_uncovered_ledger");
        match mcp_one("explain_matching", serde_json::json!({"transactions": dsl, "ticker": tk, "disposal_date": date})) {
            Err(e) => return Verdict::fail(e),
            Ok(Ok(text)) => {
                if !covered {
                    return Verdict::fail(format!("MCP explain_matching({tk}, {date}) returned an explanation for an uncovered ledger (uncovered: {uncovered:?}): {}\n{dsl}", text.chars().take(200).collect::<String>()));
                }
            }
            Ok(Err(msg)) => {
                if covered {
                    return Verdict::fail(format!("MCP explain_matching({tk}, {date}) refused a covered ledger: {msg}\n{dsl}"));
                }
            }
        }
    }
    match mcp_one("calculate_report", serde_json::json!({"transactions": dsl})) {
        Err(e) => Verdict::fail(e),
        Ok(Ok(text)) => {
            if !covered {
                return Verdict::fail(format!("MCP calculate_report returned a result for an uncovered ledger: {}", text.chars().take(200).collect::<String>()));
            }
            Verdict::Pass
        }
        Ok(Err(msg)) => {
            if covered {
                return Verdict::fail(format!("MCP calculate_report refused a covered ledger: {msg}"));
            }
            if !uncovered.iter().any(|(k, d)| msg.to_uppercase().contains(k.to_uppercase().as_str()) && (msg.contains(d.as_str()) || msg.contains(&uk_form(d)))) {
                return Verdict::fail(format!("MCP error does not name an uncovered security and date {uncovered:?}: {msg}"));
            }
            Verdict::Pass
        }
    }
}

fn strat_c05_front(t: Tier) -> BoxedStrategy<crate::props::c05::Case> {
    (lgen::ledger_strategy(embedded_cfg(t)), prop_oneof![1 => Just(0u8), 3 => 1u8..7], any::<u16>()).prop_map(|(base, mutation, idx)| crate::props::c05::Case { base, mutation, idx }).boxed()
}

pub fn c05_front(ctx: &Ctx) -> bool {
    ctx.shrink_iters.store(60, std::sync::atomic::Ordering::Relaxed);
    ctx.run_prop("front_ends", RULE_C05_FRONT, ctx.cases(6, 600), strat_c05_front, check_c05_front)
}

// ----- C06: several input files vs one -----

const RULE_C06_CLI: &str = "process level: the lines of an accepted ledger are shuffled and distributed over 2-4 real files; `cgt-tool report a b c --format json` must equal `cgt-tool report all.cgt --format json` minus the echoed transactions (known finding F17 aside); non-trivial = a file boundary falls inside a day; distinct by DSL hash";

pub fn check_c06_cli(c: &crate::props::c06::Case, obs: &mut Obs) -> Verdict {
    if lgen::has_excluded_placement(&c.base.ledger) {
        obs.excluded += 1;
        return Verdict::Pass;
    }
    let v = crate::props::c06::build_variant(c);
    let all = crate::led::to_dsl(&c.base.ledger) + "\n";
    obs.hash = crate::led::hash_str(&format!("{all}#{:?}", v.file_texts));
    obs.nontrivial = v.file_texts.len() > 1;
    if obs.sample.is_none() {
        obs.sample = Some(serde_json::json!({"files": v.file_texts}));
    }
    let sc = Scratch::new("c06");
    let one = sc.write("all.cgt", &all).to_string_lossy().to_string();
    let mut names = vec![];
    for (i, t) in v.file_texts.iter().enumerate() {
        names.push(sc.write(&format!("part{i}.cgt"), t).to_string_lossy().to_string());
    }
    let a = proc::run_cli(&sc, &["report", &one, "--format", "json"]);
    let mut args = vec!["report"];
    for n in &names {
        args.push(n);
    }
    args.extend(["--format", "json"]);
    let b = proc::run_cli(&sc, &args);
    if a.ok() != b.ok() {
        return Verdict::fail(format!("one file: {} but {} files: {}", a.describe(), names.len(), b.describe()));
    }
    if !a.ok() {
        obs.class("both_rejected");
        return Verdict::Pass;
    }
    match (json_minus_tx(&a), json_minus_tx(&b)) {
        (Ok(x), Ok(y)) => {
            if x == y {
                return Verdict::Pass;
            }
            // attribute to F17 only through the library-level comparison (full precision)
            let parsed = match cgt_core::parser::parse_file(&v.file_texts.join("\n")) {
                Ok(p) => crate::led::from_core(&p),
                Err(e) => return Verdict::fail(format!("joined files do not parse: {e}")),
            };
            let cfg = cgt_core::Config::embedded().unwrap_or_default();
            let fx = crate::props::c15::fx();
            if let (crate::tool::Outcome::Ok(ra), crate::tool::Outcome::Ok(rb)) = (crate::tool::calc_with(&c.base.ledger, None, Some(fx), &cfg), crate::tool::calc_with(&parsed, None, Some(fx), &cfg)) {
                match crate::tool::equivalent_or_f17(&ra, &c.base.ledger, &rb, &parsed, obs) {
                    crate::tool::Equiv::F17 => return crate::tool::f17_verdict(),
                    crate::tool::Equiv::Same => {
                        // only pence-level rounding of figures that differ below tolerance
                        obs.class("json_differs_only_by_rounding_of_tolerance_level_differences");
                        return Verdict::Pass;
                    }
                    crate::tool::Equiv::Different(e) => return Verdict::fail(format!("report depends on the distribution of lines over files: {e}\n{:?}", v.file_texts)),
                }
            }
            Verdict::fail(format!("report depends on the distribution of lines over files\n{:?}", v.file_texts))
        }
        (Err(e), _) | (_, Err(e)) => Verdict::fail(e),
    }
}

fn strat_c06_cli(t: Tier) -> BoxedStrategy<crate::props::c06::Case> {
    (
        lgen::ledger_strategy(embedded_cfg(t)),
        proptest::collection::vec(any::<u16>(), 48),
        proptest::collection::vec(any::<u8>(), 48),
        2u8..=4,
        any::<bool>(),
    )
        .prop_map(|(base, perm, files, nfiles, trailing_newline)| crate::props::c06::Case { base, perm, files, nfiles, fill_idx: 0, fill_n: 1, fill_salt: 0, fill_pos: vec![0, 0, 0], trailing_newline })
        .boxed()
}

pub fn c06_cli(ctx: &Ctx) -> bool {
    ctx.shrink_iters.store(100, std::sync::atomic::Ordering::Relaxed);
    ctx.run_prop("cli_several_files", RULE_C06_CLI, ctx.cases(8, 600), strat_c06_cli, check_c06_cli)
}

// ----- C07 / C04: --year through the CLI, exemption override files, explain_matching's own year rule -----

const RULE_C07_CLI: &str = "process level: a ledger with a sale forced onto 5 or 6 April; `cgt-tool report --year Y --format json` for the years around it must equal the library's single-year report; a config.toml override (in the working directory or under $HOME/.config/cgt-tool) must replace/add exactly the configured exemption; MCP explain_matching (which derives the tax year on its own) must explain the boundary-day disposal; non-trivial = every case; distinct by DSL hash";

pub fn check_c07_cli(c: &FrontCase, obs: &mut Obs) -> Verdict {
    use chrono::Datelike;
    let mut ledger = c.gl.ledger.clone();
    if lgen::has_excluded_placement(&ledger) {
        obs.excluded += 1;
        return Verdict::Pass;
    }
    // force a boundary-day sale of a fresh security
    let year = 2016 + (c.sel % 8) as i32;
    let day = if c.sel % 2 == 0 { 5 } else { 6 };
    let bdate = crate::led::d(year, 4, day);
    ledger.push(Tx::buy(crate::led::d(year - 1, 1, 10), "EDGE", 10.into(), 3.into(), 0.into()));
    ledger.push(Tx::sell(bdate, "EDGE", 4.into(), 5.into(), 1.into()));
    let dsl = crate::led::to_dsl(&ledger) + "\n";
    obs.hash = crate::led::hash_str(&dsl);
    obs.nontrivial = true;
    obs.class(&format!("sale_on_{day}_April"));
    if obs.sample.is_none() {
        obs.sample = Some(serde_json::json!({"boundary_sale": bdate.to_string(), "lines": ledger.len()}));
    }
    let fx = crate::props::c15::fx();
    let expect_year = if day == 5 { year - 1 } else { year };
    let sc = Scratch::new("c07");
    let input = sc.write("in.cgt", &dsl).to_string_lossy().to_string();
    // override file: replace one year, add one the embedded table lacks
    let custom = 4321 + (c.sel % 100) as i64;
    let use_home = c.sel % 3 == 0;
    let toml = format!("[exemptions]\n\"{expect_year}\" = {custom}\n\"2031\" = 777\n");
    if use_home {
        sc.write("home/.config/cgt-tool/config.toml", &toml);
    } else {
        sc.write("config.toml", &toml);
    }
    obs.class(if use_home { "override_in_home" } else { "override_in_cwd" });
    let mut cfg = cgt_core::Config::embedded().unwrap_or_default();
    cfg.exemptions.insert(expect_year as u16, custom.into());
    cfg.exemptions.insert(2031, 777.into());
    for y in [expect_year - 1, expect_year, expect_year + 1] {
        let ys = y.to_string();
        let o = proc::run_cli(&sc, &["report", &input, "--year", &ys, "--format", "json"]);
        let lib = crate::tool::calc_with(&ledger, Some(y), Some(fx), &cfg);
        match lib {
            crate::tool::Outcome::Ok(r) => {
                if !o.ok() {
                    return Verdict::fail(format!("--year {y}: CLI failed but the library succeeds: {}", o.describe()));
                }
                let got = match json_minus_tx(&o) {
                    Ok(g) => g,
                    Err(e) => return Verdict::fail(e),
                };
                let want = serde_json::json!({"tax_years": r.tax_years, "holdings": r.holdings});
                if got != want {
                    return Verdict::fail(format!("--year {y}: CLI report differs from the library's single-year report\n--- cli ---\n{got}\n--- library ---\n{want}"));
                }
                let has_edge = got.pointer("/tax_years/0/disposals").and_then(|d| d.as_array()).map(|d| d.iter().any(|x| x.get("ticker").and_then(|t| t.as_str()) == Some("EDGE"))).unwrap_or(false);
                if has_edge != (y == expect_year) {
                    return Verdict::fail(format!("--year {y}: boundary sale of {bdate} {} this report (belongs to {expect_year})", if has_edge { "appears in" } else { "is missing from" }));
                }
                if y == expect_year && got.pointer("/tax_years/0/exempt_amount").and_then(|x| x.as_str()).and_then(|x| x.parse::<f64>().ok()) != Some(custom as f64) {
                    return Verdict::fail(format!("--year {y}: exemption {:?}, the override file configures {custom}", got.pointer("/tax_years/0/exempt_amount")));
                }
            }
            crate::tool::Outcome::Err(_) => {
                if o.ok() {
                    return Verdict::fail(format!("--year {y}: CLI succeeded but the library fails"));
                }
            }
            crate::tool::Outcome::Panic(p) => return Verdict::fail(format!("calculate panicked: {}", p.msg)),
        }
    }
    // MCP explain_matching derives the tax year itself
    let _ = bdate.year();
    match mcp_one("explain_matching", serde_json::json!({"transactions": dsl, "disposal_date": bdate.to_string(), "ticker": "edge"})) {
        Err(e) => Verdict::fail(e),
        Ok(Err(msg)) => {
            // the MCP server runs in its own scratch dir with the embedded table: the year is configured
            Verdict::fail(format!("explain_matching cannot explain the disposal of {bdate}: {}", msg.chars().take(300).collect::<String>()))
        }
        Ok(Ok(text)) => {
            let v: Value = serde_json::from_str(&text).unwrap_or(Value::Null);
            if v.get("disposal_date").and_then(|x| x.as_str()) != Some(bdate.to_string().as_str()) || v.get("quantity").and_then(|x| x.as_str()) != Some("4") {
                return Verdict::fail(format!("explain_matching answer for {bdate}: {text}"));
            }
            Verdict::Pass
        }
    }
}

pub fn c07_cli(ctx: &Ctx) -> bool {
    ctx.shrink_iters.store(60, std::sync::atomic::Ordering::Relaxed);
    ctx.run_prop("cli_year_and_overrides", RULE_C07_CLI, ctx.cases(4, 400), strat_front, check_c07_cli)
}

// ----- C14: CLI parse output through the MCP tools -----

const RULE_C14_MCP: &str = "process level: `cgt-tool parse` output (JSON) fed to MCP parse_transactions, convert_to_dsl and calculate_report (JSON sniffing) must agree with the CLI on the DSL: same transactions, DSL that parses back to them, same report; non-trivial = ledger has a disposal; distinct by DSL hash";

pub fn check_c14_mcp(c: &FrontCase, obs: &mut Obs) -> Verdict {
    use std::time::Duration;
    let ledger = &c.gl.ledger;
    if lgen::has_excluded_placement(ledger) || ledger.is_empty() {
        obs.excluded += 1;
        return Verdict::Pass;
    }
    let dsl = crate::led::to_dsl(ledger) + "\n";
    obs.hash = crate::led::hash_str(&dsl);
    obs.nontrivial = ledger.iter().any(|t| matches!(t.op, Op::Sell { .. }));
    if obs.sample.is_none() {
        obs.sample = Some(crate::tool::sample_of(ledger));
    }
    let sc = Scratch::new("c14");
    let input = sc.write("in.cgt", &dsl).to_string_lossy().to_string();
    let parsed = proc::run_cli(&sc, &["parse", &input]);
    if !parsed.ok() {
        return Verdict::fail(format!("cgt-tool parse failed on a generated ledger: {}", parsed.describe()));
    }
    let json_text = parsed.stdout_s();
    let cli_json: Value = match serde_json::from_str(&json_text) {
        Ok(v) => v,
        Err(e) => return Verdict::fail(format!("parse output is not JSON: {e}")),
    };
    let report = proc::run_cli(&sc, &["report", &input, "--format", "json"]);
    let mut m = crate::proc::Mcp::start(false);
    if !m.handshake() {
        proc::inconclusive("MCP handshake failed");
    }
    let mut ask = |id: i64, tool: &str, args: Value| -> Result<Result<String, String>, Verdict> {
        m.send(&crate::proc::tool_call(id, tool, args));
        match m.recv(Duration::from_secs(60)) {
            Some(r) => Ok(crate::proc::tool_text(&r)),
            None => proc::inconclusive(&format!("MCP {tool}: no answer within 60 s (liveness is C20's property)")),
        }
    };
    // parse_transactions on the CLI's JSON
    match ask(1, "parse_transactions", serde_json::json!({"transactions": json_text})) {
        Err(v) => return v,
        Ok(Err(e)) => return Verdict::fail(format!("MCP parse_transactions rejects the CLI's own JSON: {e}")),
        Ok(Ok(t)) => {
            if serde_json::from_str::<Value>(&t).ok().as_ref() != Some(&cli_json) {
                return Verdict::fail("MCP parse_transactions(JSON from cgt-tool parse) differs from that JSON".to_string());
            }
        }
    }
    // convert_to_dsl on the CLI's JSON parses back (via the CLI) to the same JSON
    match ask(2, "convert_to_dsl", serde_json::json!({"transactions": json_text})) {
        Err(v) => return v,
        Ok(Err(e)) => return Verdict::fail(format!("MCP convert_to_dsl rejects the CLI's own JSON: {e}")),
        Ok(Ok(t)) => {
            let back = sc.write("back.cgt", &(t + "\n")).to_string_lossy().to_string();
            let again = proc::run_cli(&sc, &["parse", &back]);
            if serde_json::from_slice::<Value>(&again.stdout).ok().as_ref() != Some(&cli_json) {
                return Verdict::fail(format!("DSL written by convert_to_dsl parses to different transactions: {}", again.describe()));
            }
        }
    }
    // calculate_report with JSON input vs CLI report of the DSL
    let r = ask(3, "calculate_report", serde_json::json!({"transactions": json_text}));
    let _ = m.close(Duration::from_secs(20));
    match r {
        Err(v) => v,
        Ok(Err(e)) => {
            if report.ok() {
                return Verdict::fail(format!("calculate_report(JSON) fails but cgt-tool report succeeds: {e}"));
            }
            Verdict::Pass
        }
        Ok(Ok(t)) => {
            if !report.ok() {
                return Verdict::fail(format!("calculate_report(JSON) succeeds but cgt-tool report fails: {}", report.describe()));
            }
            let got: Value = serde_json::from_str(&t).unwrap_or(Value::Null);
            match json_minus_tx(&report) {
                Ok(want) if want == got => Verdict::Pass,
                Ok(_) => Verdict::fail(format!("calculate_report on the JSON rendering differs from cgt-tool report on the DSL\n{dsl}")),
                Err(e) => Verdict::fail(e),
            }
        }
    }
}

pub fn c14_mcp(ctx: &Ctx) -> bool {
    ctx.shrink_iters.store(60, std::sync::atomic::Ordering::Relaxed);
    ctx.run_prop("cli_json_through_mcp", RULE_C14_MCP, ctx.cases(4, 400), strat_front, check_c14_mcp)
}
