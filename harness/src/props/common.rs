//! Strata shared by the ledger-level checks.

use crate::lgen::{self, GenCfg, GenLedger, SplitMode};
use crate::runner::Tier;
use proptest::strategy::BoxedStrategy;

pub type Strat = fn(Tier) -> BoxedStrategy<GenLedger>;

pub fn s_single(t: Tier) -> BoxedStrategy<GenLedger> {
    lgen::ledger_strategy(GenCfg::basic().days(2, t.pick(14, 30)))
}
pub fn s_multi(t: Tier) -> BoxedStrategy<GenLedger> {
    lgen::ledger_strategy(GenCfg::basic().secs(3).days(2, t.pick(14, 30)).dividends(true))
}
pub fn s_split(t: Tier) -> BoxedStrategy<GenLedger> {
    lgen::ledger_strategy(GenCfg::basic().secs(2).days(2, t.pick(14, 30)).splits(SplitMode::Terminating))
}
pub fn s_residue(t: Tier) -> BoxedStrategy<GenLedger> {
    lgen::ledger_strategy(GenCfg::basic().secs(2).days(2, t.pick(12, 24)).splits(SplitMode::Residue))
}
/// asset events, no splits at all
pub fn s_events(t: Tier) -> BoxedStrategy<GenLedger> {
    lgen::ledger_strategy(GenCfg::basic().secs(2).days(2, t.pick(12, 24)).events(true).dividends(true))
}
/// asset events and splits together
pub fn s_events_splits(t: Tier) -> BoxedStrategy<GenLedger> {
    lgen::ledger_strategy(
        GenCfg::basic().secs(2).days(2, t.pick(12, 24)).splits(SplitMode::Terminating).events(true).dividends(true),
    )
}
pub fn s_shuffled(t: Tier) -> BoxedStrategy<GenLedger> {
    lgen::ledger_strategy(GenCfg::basic().secs(3).days(2, t.pick(12, 24)).splits(SplitMode::Terminating).shuffle(true))
}
/// everything at once, shuffled
pub fn s_all(t: Tier) -> BoxedStrategy<GenLedger> {
    lgen::ledger_strategy(
        GenCfg::basic()
            .secs(4)
            .days(2, t.pick(14, 30))
            .splits(SplitMode::Terminating)
            .events(true)
            .dividends(true)
            .shuffle(true),
    )
}

/// (name, strategy, quick cases, thorough cases)
pub fn standard_strata() -> Vec<(&'static str, Strat, u32, u32)> {
    vec![
        ("single_security", s_single, 1200, 160_000),
        ("multi_security", s_multi, 800, 120_000),
        ("terminating_splits", s_split, 800, 160_000),
        ("residue_splits", s_residue, 300, 60_000),
        ("asset_events", s_events, 500, 80_000),
        ("asset_events_with_splits", s_events_splits, 300, 60_000),
        ("shuffled_lines", s_shuffled, 500, 80_000),
    ]
}

pub const LEDGER_CHECKS: &[&str] = &[
    "single_security",
    "multi_security",
    "terminating_splits",
    "residue_splits",
    "asset_events",
    "asset_events_with_splits",
    "shuffled_lines",
    "all_features",
];
