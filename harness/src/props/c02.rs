//! C02 — share conservation, decided from the report and the input lines only.

use crate::lgen::{self, GenLedger};
use crate::model::{self, DayAgg, NoFx, Rule};
use crate::props::common;
use crate::props::PropDef;
use crate::rat::Rat;
use crate::runner::{replay_case, Ctx, Obs, Verdict};
use crate::tool::{self, Outcome};
use chrono::NaiveDate;
use serde_json::Value;
use std::collections::BTreeMap;

pub fn def() -> PropDef {
    PropDef { id: "C02", run, replay, assumptions: &["split factor between two dates = product of the ratios of SPLIT/UNSPLIT lines dated in [sale date, acquisition date)"] }
}

const RULE: &str = "constructive accepted ledgers; non-trivial = a disposal spread over >=2 rules, or a split between a disposal and its 30-day acquisition, or >=3 same-day lots; distinct by DSL hash";

fn factor(days: &[DayAgg], from: NaiveDate, to: NaiveDate) -> Rat {
    let mut f = Rat::one();
    for d in days {
        if d.date >= from && d.date < to {
            f = &f * &d.ratio;
        }
    }
    f
}

pub fn check(gl: &GenLedger, obs: &mut Obs) -> Verdict {
    let ledger = &gl.ledger;
    if lgen::has_excluded_placement(ledger) {
        obs.excluded += 1;
        return Verdict::Pass;
    }
    obs.hash = crate::led::hash_str(&crate::led::to_dsl(ledger));
    obs.excluded += gl.excluded;
    let agg = match model::aggregate(ledger, &NoFx) {
        Ok(a) => a,
        Err(e) => return Verdict::fail(format!("harness: FX needed {e:?}")),
    };
    let report = match tool::calc(ledger) {
        Outcome::Ok(r) => r,
        Outcome::Err(_) => {
            obs.class("tool_rejected");
            return Verdict::Pass; // C02 quantifies over accepted ledgers
        }
        Outcome::Panic(p) => return Verdict::fail(format!("calculate panicked: {} at {}", p.msg, p.loc)),
    };
    if obs.sample.is_none() {
        obs.sample = Some(tool::sample_of(ledger));
    }
    let tq = tool::tol_qty();
    let close = |a: &Rat, b: &Rat| (a - b).abs() <= &tq * a.abs().max(Rat::one());
    // (1) legs of each disposal add up to the quantity sold that day
    let disposals = tool::all_disposals(&report);
    let mut matched_against: BTreeMap<(String, NaiveDate), Rat> = BTreeMap::new();
    let mut n_multi = 0;
    let mut n_across = 0;
    for d in &disposals {
        let Some(days) = agg.get(&d.ticker) else {
            vfail!("disposal for unknown security {}", d.ticker);
        };
        let Some(day) = days.iter().find(|x| x.date == d.date) else {
            vfail!("disposal {} {} on a day without transactions", d.ticker, d.date);
        };
        let legsum: Rat = d.matches.iter().map(|m| Rat::from_dec(m.quantity)).sum();
        if !close(&day.s, &legsum) {
            vfail!("{} {}: legs add up to {} but {} shares were sold that day\n{}", d.ticker, d.date, legsum, day.s, crate::led::to_dsl(ledger));
        }
        if !close(&day.s, &Rat::from_dec(d.quantity)) {
            vfail!("{} {}: disposal quantity {} but {} shares were sold that day", d.ticker, d.date, d.quantity, day.s);
        }
        let rules: std::collections::BTreeSet<Rule> = d.matches.iter().map(|m| tool::rule_of(&m.rule)).collect();
        if rules.len() >= 2 {
            n_multi += 1;
        }
        for m in &d.matches {
            if m.quantity.is_sign_negative() {
                vfail!("{} {}: negative leg quantity {}", d.ticker, d.date, m.quantity);
            }
            match tool::rule_of(&m.rule) {
                Rule::SameDay => {
                    if m.acquisition_date != Some(d.date) {
                        vfail!("{} {}: same-day leg with acquisition date {:?}", d.ticker, d.date, m.acquisition_date);
                    }
                    *matched_against.entry((d.ticker.clone(), d.date)).or_insert_with(Rat::zero) += Rat::from_dec(m.quantity);
                }
                Rule::Bnb => {
                    let Some(a) = m.acquisition_date else {
                        vfail!("{} {}: 30-day leg without acquisition date", d.ticker, d.date);
                    };
                    let f = factor(days, d.date, a);
                    if f != Rat::one() {
                        n_across += 1;
                    }
                    *matched_against.entry((d.ticker.clone(), a)).or_insert_with(Rat::zero) += Rat::from_dec(m.quantity) * f;
                }
                Rule::S104 => {}
            }
        }
    }
    // (2) nothing matched against a day exceeds what was acquired that day
    for ((tk, date), q) in &matched_against {
        let b = agg.get(tk).and_then(|days| days.iter().find(|x| x.date == *date)).map(|x| x.b.clone()).unwrap_or_else(Rat::zero);
        if *q > &b + &tq * b.abs().max(Rat::one()) {
            vfail!("{tk}: {q} shares matched against the acquisitions of {date}, only {b} acquired that day\n{}", crate::led::to_dsl(ledger));
        }
    }
    // (3) closing holding = acquisitions - disposals, rescaled by later splits
    let hold = tool::holdings_map(&report);
    let mut lots3 = false;
    for (tk, days) in &agg {
        let mut h = Rat::zero();
        for d in days {
            h = (&h + &d.b - &d.s) * &d.ratio;
            if d.n_buy >= 3 {
                lots3 = true;
            }
        }
        let traded = days.iter().any(|d| d.n_buy + d.n_sell > 0);
        let reported = hold.get(tk).map(|x| Rat::from_dec(x.0)).unwrap_or_else(Rat::zero);
        if !traded && reported.is_zero() {
            continue;
        }
        if !close(&h, &reported) {
            vfail!("{tk}: closing holding reported {reported}, acquisitions minus disposals (rescaled) = {h}\n{}", crate::led::to_dsl(ledger));
        }
    }
    for tk in hold.keys() {
        if !agg.contains_key(tk) {
            vfail!("holding for unknown security {tk}");
        }
    }
    obs.nontrivial = n_multi > 0 || n_across > 0 || lots3;
    obs.class_if(n_multi > 0, "partial_match_over_2+_rules");
    obs.class_if(n_across > 0, "split_between_disposal_and_30day_acquisition");
    obs.class_if(lots3, "3+_same_day_lots");
    obs.class_if(disposals.is_empty(), "no_disposal");
    Verdict::Pass
}

fn run(ctx: &Ctx) {
    for (name, strat, q, t) in common::standard_strata() {
        if !ctx.run_prop(name, RULE, ctx.cases(q, t), strat, check) {
            return;
        }
    }
    if !ctx.run_prop("all_features", RULE, ctx.cases(400, 80_000), common::s_all, check) {
        return;
    }
    if ctx.tier == crate::runner::Tier::Thorough {
        ctx.run_fuzz("libfuzzer_ledger", "ledger", (30_000.0 * ctx.scale) as u64, 1200, "coverage-guided libFuzzer campaign: bytes decoded into a ledger recipe (structure-aware), the proptest oracles of C01/C02/C03/C05 inside the target; evaluations = executions, distinct_nontrivial = distinct corpus entries (inputs that reached new coverage)");
    }
}

fn replay(name: &str, case: &Value) -> Option<Verdict> {
    if common::LEDGER_CHECKS.contains(&name) {
        Some(replay_case::<GenLedger, _>(case, check).unwrap_or_else(Verdict::Fail))
    } else {
        None
    }
}
