//! C03 — allowable expenditure is conserved per security.

use crate::led::{Op, Tx};
use crate::lgen::{self, GenLedger};
use crate::model::{self, NoFx};
use crate::props::common;
use crate::props::PropDef;
use crate::rat::Rat;
use crate::runner::{replay_case, Ctx, Obs, Verdict};
use crate::tool::{self, Outcome};
use serde_json::Value;
use std::collections::BTreeMap;

pub fn def() -> PropDef {
    PropDef { id: "C03", run, replay, assumptions: &["a CAPRETURN/ACCUMULATION 'took effect' iff the exact holding of its security at the close of the previous day is > 0"] }
}

const RULE: &str = "constructive accepted ledgers incl. CAPRETURN/ACCUMULATION strata; non-trivial = an asset event while shares are held, or one acquisition day shared between a same-day leg/30-day claim and the pool; distinct by DSL hash";

/// Ok(None) = conserved; Ok(Some(msg)) = violated
pub fn conservation(ledger: &[Tx], obs: &mut Obs, classify: bool) -> Result<Option<String>, Verdict> {
    conservation_fx(ledger, obs, classify, false)
}

/// The harness's own reading of the bundled HMRC tables (fxtable.rs), exact rationals.
pub struct BundledFx;
impl model::Fx for BundledFx {
    fn rate(&self, code: &str, year: i32, month: u32) -> Option<Rat> {
        crate::fxtable::bundled().get(&(code.to_string(), year, month)).map(|d| Rat::from_dec(*d))
    }
}

/// `foreign`: amounts may be in foreign currencies; expected GBP costs = amount / bundled rate of
/// the line's own month (exact), the tool runs with its default rate cache.
pub fn conservation_fx(ledger: &[Tx], obs: &mut Obs, classify: bool, foreign: bool) -> Result<Option<String>, Verdict> {
    let agg = match if foreign { model::aggregate(ledger, &BundledFx) } else { model::aggregate(ledger, &NoFx) } {
        Ok(a) => a,
        Err(e) if foreign => {
            // a needed rate is absent: the run must fail (C08 judges how); nothing to conserve
            let _ = e;
            if classify {
                obs.class("needs_a_missing_rate");
            }
            return Err(Verdict::Pass);
        }
        Err(e) => return Err(Verdict::fail(format!("harness: FX needed {e:?}"))),
    };
    let out = if foreign { tool::calc_with(ledger, None, Some(crate::props::c15::fx()), &tool::all_years_config()) } else { tool::calc(ledger) };
    let report = match out {
        Outcome::Ok(r) => r,
        Outcome::Err(_) => {
            if classify {
                obs.class("tool_rejected");
            }
            return Err(Verdict::Pass);
        }
        Outcome::Panic(p) => return Err(Verdict::fail(format!("calculate panicked: {} at {}", p.msg, p.loc))),
    };
    let mut leg_cost: BTreeMap<String, Rat> = BTreeMap::new();
    let mut shared_day = false;
    for d in tool::all_disposals(&report) {
        let e = leg_cost.entry(d.ticker.clone()).or_insert_with(Rat::zero);
        for m in &d.matches {
            *e += Rat::from_dec(m.allowable_cost);
        }
    }
    let hold = tool::holdings_map(&report);
    let raw_hold: BTreeMap<String, Rat> =
        report.holdings.iter().map(|h| (h.ticker.clone(), Rat::from_dec(h.total_cost))).collect();
    let _ = hold;
    let tm = tool::tol_money();
    let mut event_effective = false;
    for (tk, days) in &agg {
        let mut expect = Rat::zero();
        let mut h = Rat::zero();
        for d in days {
            if h.is_pos() {
                for c in &d.capret_net {
                    expect -= c;
                    event_effective = true;
                }
                for a in &d.acc_total {
                    expect += a;
                    event_effective = true;
                }
            }
            expect += &d.cb;
            if d.b.is_pos() && d.s.is_pos() && d.b > d.s {
                shared_day = true;
            }
            h = (&h + &d.b - &d.s) * &d.ratio;
        }
        let got = leg_cost.get(tk).cloned().unwrap_or_else(Rat::zero) + raw_hold.get(tk).cloned().unwrap_or_else(Rat::zero);
        if got == expect {
            obs.exact_cmp += 1;
        } else if (&got - &expect).abs() <= tm {
            obs.tol_cmp += 1;
        } else {
            return Ok(Some(format!(
                "{tk}: sum of leg costs + closing cost = {got}, but acquisitions + accumulations - net capital returns in effect = {expect} (difference {})",
                &got - &expect
            )));
        }
    }
    if classify {
        obs.nontrivial = event_effective || shared_day;
        obs.class_if(event_effective, "asset_event_while_held");
        obs.class_if(shared_day, "acquisition_day_shared_between_rules");
    }
    Ok(None)
}

pub fn check(gl: &GenLedger, obs: &mut Obs) -> Verdict {
    let ledger = &gl.ledger;
    if lgen::has_excluded_placement(ledger) {
        obs.excluded += 1;
        return Verdict::Pass;
    }
    obs.hash = crate::led::hash_str(&crate::led::to_dsl(ledger));
    obs.excluded += gl.excluded;
    if obs.sample.is_none() {
        obs.sample = Some(tool::sample_of(ledger));
    }
    match conservation(ledger, obs, true) {
        Err(v) => v,
        Ok(None) => Verdict::Pass,
        Ok(Some(msg)) => {
            // F5: the cost pre-pass has no split handling. Attributed only if a split precedes an
            // asset event of the same security AND the same ledger rewritten in post-split units
            // (no SPLIT lines left) conserves cost.
            if lgen::has_split_before_event(ledger) {
                if let Some(twin) = lgen::rescale_all(ledger) {
                    let mut scratch = Obs::default();
                    if let Ok(None) = conservation(&twin, &mut scratch, false) {
                        return Verdict::Known {
                            finding: "F5",
                            what: "asset event after a SPLIT/UNSPLIT of the same security: the cost pre-pass ignores the split, so the adjustment is mis-apportioned or dropped".into(),
                        };
                    }
                }
            }
            Verdict::fail(format!("{msg}\nledger:\n{}", crate::led::to_dsl(ledger)))
        }
    }
}

#[derive(Clone, Debug, serde::Serialize, serde::Deserialize)]
pub struct FxCase {
    pub gl: GenLedger,
    pub cur: Vec<u8>,
}

const RULE_FX: &str = "ledgers 2015-2024 whose every monetary field independently is GBP or one of 10 foreign currencies (price and fee of one line often in different currencies); expected cost = amount / bundled HMRC rate of the line's month, exact; non-trivial = a purchase whose price and fee are in different currencies, or one currency used in two months; distinct by DSL hash";

fn strat_fx(t: crate::runner::Tier) -> proptest::strategy::BoxedStrategy<FxCase> {
    use proptest::prelude::*;
    let cfg = lgen::GenCfg::basic().secs(2).days(3, t.pick(12, 24)).splits(lgen::SplitMode::Terminating).events(true).years(2015, 2024);
    (lgen::ledger_strategy(cfg), proptest::collection::vec(0u8..16, 24)).prop_map(|(gl, cur)| FxCase { gl, cur }).boxed()
}

pub fn check_fx(c: &FxCase, obs: &mut Obs) -> Verdict {
    if lgen::has_excluded_placement(&c.gl.ledger) {
        obs.excluded += 1;
        return Verdict::Pass;
    }
    let ledger = crate::props::c08::apply_currencies(&crate::props::c08::Case { gl: c.gl.clone(), cur: c.cur.clone(), folder: vec![] });
    obs.hash = crate::led::hash_str(&crate::led::to_dsl(&ledger));
    if obs.sample.is_none() {
        obs.sample = Some(tool::sample_of(&ledger));
    }
    let mut two_cur = false;
    let mut months: BTreeMap<String, std::collections::BTreeSet<(i32, u32)>> = BTreeMap::new();
    for t in &ledger {
        let ms = t.monies();
        if matches!(t.op, Op::Buy { .. }) && ms.len() == 2 && ms[0].c != ms[1].c && !ms[1].a.is_zero() {
            two_cur = true;
        }
        for m in ms {
            if !m.is_gbp() {
                months.entry(m.c.clone()).or_default().insert((chrono::Datelike::year(&t.date), chrono::Datelike::month(&t.date)));
            }
        }
    }
    let two_months = months.values().any(|s| s.len() >= 2);
    match conservation_fx(&ledger, obs, true, true) {
        Err(v) => v,
        Ok(None) => {
            obs.nontrivial = two_cur || two_months;
            obs.class_if(two_cur, "purchase_price_and_fee_in_different_currencies");
            obs.class_if(two_months, "one_currency_in_two_months");
            obs.class_if(months.is_empty(), "all_gbp");
            Verdict::Pass
        }
        Ok(Some(msg)) => Verdict::fail(format!("{msg}\nledger:\n{}", crate::led::to_dsl(&ledger))),
    }
}

fn run(ctx: &Ctx) {
    if !ctx.run_prop("foreign_currency", RULE_FX, ctx.cases(600, 80_000), strat_fx, check_fx) {
        return;
    }
    for (name, strat, q, t) in common::standard_strata() {
        if !ctx.run_prop(name, RULE, ctx.cases(q, t), strat, check) {
            return;
        }
    }
    if !ctx.run_prop("all_features", RULE, ctx.cases(400, 80_000), common::s_all, check) {
        return;
    }
    if ctx.tier == crate::runner::Tier::Thorough {
        ctx.run_fuzz("libfuzzer_ledger", "ledger", (30_000.0 * ctx.scale) as u64, 1200, "coverage-guided libFuzzer campaign: bytes decoded into a ledger recipe (structure-aware), the proptest oracles of C01/C02/C03/C05 inside the target; evaluations = executions, distinct_nontrivial = distinct corpus entries (inputs that reached new coverage)");
    }
}

fn replay(name: &str, case: &Value) -> Option<Verdict> {
    if name == "foreign_currency" {
        return Some(replay_case::<FxCase, _>(case, check_fx).unwrap_or_else(Verdict::Fail));
    }
    if common::LEDGER_CHECKS.contains(&name) {
        Some(replay_case::<GenLedger, _>(case, check).unwrap_or_else(Verdict::Fail))
    } else {
        None
    }
}

#[allow(dead_code)]
fn unused(_: &Op) {}
