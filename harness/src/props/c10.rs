//! C10 — splits only rescale share counts.

use crate::led::{Op, Tx};
use crate::lgen::{self, GenCfg, GenLedger, SplitMode};
use crate::model::{self, NoFx, Quirks};
use crate::props::PropDef;
use crate::rat::Rat;
use crate::runner::{replay_case, Ctx, Obs, Tier, Verdict};
use crate::tool::{self, Outcome};
use cgt_core::{Disposal, TaxReport};
use chrono::{Duration, NaiveDate};
use proptest::prelude::*;
use rust_decimal::Decimal;
use serde::{Deserialize, Serialize};
use serde_json::Value;

pub fn def() -> PropDef {
    PropDef { id: "C10", run, replay, assumptions: &["twins use ratios whose rescaled quantities and prices are exactly representable (2, 4, 5, 10, 1.25, 2.5); non-terminating ratios are covered by C01/C02/C05 against the exact model"] }
}

#[derive(Clone, Debug, Serialize, Deserialize)]
pub struct Case {
    pub gl: GenLedger,
    pub pick: u16,
    pub ins_ratio: u8,
    pub ins_gap: u8,
}

const RULE: &str = "ledgers with 1-4 SPLIT/UNSPLIT lines (terminating ratios) x twin rewritten in post-split units for one chosen split, and x a ledger with an inserted SPLIT r + UNSPLIT r pair; non-trivial = the chosen split lies between a disposal and its 30-day acquisition, or between an acquisition and a later pool disposal, or before an asset event; distinct by DSL hash + chosen split";

fn mk(cfg: GenCfg) -> BoxedStrategy<Case> {
    (lgen::ledger_strategy(cfg), any::<u16>(), 0u8..6, 0u8..3).prop_map(|(gl, pick, ins_ratio, ins_gap)| Case { gl, pick, ins_ratio, ins_gap }).boxed()
}
fn strat_split(t: Tier) -> BoxedStrategy<Case> {
    mk(GenCfg::basic().secs(2).days(3, t.pick(14, 28)).splits(SplitMode::Terminating))
}
fn strat_events(t: Tier) -> BoxedStrategy<Case> {
    mk(GenCfg::basic().secs(2).days(3, t.pick(12, 24)).splits(SplitMode::Terminating).events(true).dividends(true))
}
fn strat_shuffled(t: Tier) -> BoxedStrategy<Case> {
    mk(GenCfg::basic().secs(3).days(3, t.pick(12, 24)).splits(SplitMode::Terminating).shuffle(true))
}

/// Compare report `a` (original) with `b` (twin): money equal; quantities of `ticker` dated before
/// `split_date` scaled by `ratio`.
fn compare_scaled(a: &TaxReport, b: &TaxReport, ticker: &str, split_date: NaiveDate, ratio: &Rat, obs: &mut Obs, ignore_leg_gain: bool) -> Result<(), String> {
    if a.tax_years.len() != b.tax_years.len() {
        return Err(format!("tax year count {} vs {}", a.tax_years.len(), b.tax_years.len()));
    }
    for (ya, yb) in a.tax_years.iter().zip(b.tax_years.iter()) {
        if ya.period != yb.period {
            return Err(format!("tax year {} vs {}", ya.period, yb.period));
        }
        for (n, x, y) in [("total_gain", ya.total_gain, yb.total_gain), ("total_loss", ya.total_loss, yb.total_loss), ("net_gain", ya.net_gain, yb.net_gain)] {
            if !tool::dec_money_close(x, y, obs) {
                return Err(format!("{} {n}: {x} vs {y}", ya.period));
            }
        }
        if ya.disposals.len() != yb.disposals.len() {
            return Err(format!("{} disposal count {} vs {}", ya.period, ya.disposals.len(), yb.disposals.len()));
        }
        for (da, db) in ya.disposals.iter().zip(yb.disposals.iter()) {
            let scale = if da.ticker == ticker && da.date < split_date { ratio.clone() } else { Rat::one() };
            disposal_scaled(da, db, &scale, obs, ignore_leg_gain)?;
        }
    }
    let ha = tool::holdings_map(a);
    let hb = tool::holdings_map(b);
    if ha.keys().collect::<Vec<_>>() != hb.keys().collect::<Vec<_>>() {
        return Err(format!("holdings {:?} vs {:?}", ha, hb));
    }
    for (k, (qa, ca)) in &ha {
        let (qb, cb) = hb[k];
        if !tool::dec_qty_close(*qa, qb, obs) {
            return Err(format!("closing quantity of {k}: {qa} vs {qb}"));
        }
        if !tool::dec_money_close(*ca, cb, obs) {
            return Err(format!("closing cost of {k}: {ca} vs {cb}"));
        }
    }
    Ok(())
}

fn disposal_scaled(da: &Disposal, db: &Disposal, scale: &Rat, obs: &mut Obs, ignore_leg_gain: bool) -> Result<(), String> {
    let id = format!("{} {}", da.ticker, da.date);
    if da.date != db.date || da.ticker != db.ticker {
        return Err(format!("disposal {id} vs {} {}", db.ticker, db.date));
    }
    if !tool::qty_close(&(Rat::from_dec(da.quantity) * scale), db.quantity, obs) {
        return Err(format!("{id}: quantity {} (x{scale}) vs {}", da.quantity, db.quantity));
    }
    if !tool::dec_money_close(da.gross_proceeds, db.gross_proceeds, obs) || !tool::dec_money_close(da.proceeds, db.proceeds, obs) {
        return Err(format!("{id}: proceeds {} / {} vs {} / {}", da.gross_proceeds, da.proceeds, db.gross_proceeds, db.proceeds));
    }
    let ga = tool::group_tool_legs(da);
    let gb = tool::group_tool_legs(db);
    if ga.keys().collect::<Vec<_>>() != gb.keys().collect::<Vec<_>>() {
        return Err(format!("{id}: legs {:?} vs {:?}", tool::describe_tool_legs(da), tool::describe_tool_legs(db)));
    }
    for (k, (q, c, g)) in &ga {
        let (q2, c2, g2) = &gb[k];
        let qs = q * scale;
        if (&qs - q2).abs() > tool::tol_qty() * qs.abs().max(Rat::one()) {
            return Err(format!("{id}: leg {k:?} quantity {q} (x{scale}) vs {q2}"));
        }
        if (c - c2).abs() > tool::tol_money() {
            return Err(format!("{id}: leg {k:?} allowable cost {c} vs {c2}"));
        }
        if !ignore_leg_gain && (g - g2).abs() > tool::tol_money() {
            return Err(format!("{id}: leg {k:?} gain {g} vs {g2}"));
        }
    }
    let ta: Rat = ga.values().map(|v| v.2.clone()).sum();
    let tb: Rat = gb.values().map(|v| v.2.clone()).sum();
    if (&ta - &tb).abs() > tool::tol_money() {
        return Err(format!("{id}: total gain {ta} vs {tb}"));
    }
    Ok(())
}

pub fn check(c: &Case, obs: &mut Obs) -> Verdict {
    let ledger = &c.gl.ledger;
    if lgen::has_excluded_placement(ledger) {
        obs.excluded += 1;
        return Verdict::Pass;
    }
    let splits: Vec<usize> = ledger.iter().enumerate().filter(|(_, t)| t.is_split()).map(|(i, _)| i).collect();
    obs.hash = crate::led::hash_str(&format!("{}#{}#{}#{}", crate::led::to_dsl(ledger), c.pick, c.ins_ratio, c.ins_gap));
    if obs.sample.is_none() {
        obs.sample = Some(tool::sample_of(ledger));
    }
    let r0 = tool::calc(ledger);
    if let Outcome::Panic(p) = &r0 {
        return Verdict::fail(format!("calculate panicked: {} at {}", p.msg, p.loc));
    }
    // ---- relation 1: rescaled twin ----
    if !splits.is_empty() {
        let si = splits[(c.pick as usize * splits.len()) >> 16];
        let sp = &ledger[si];
        let ratio = match &sp.op {
            Op::Split { r } => Rat::from_dec(*r),
            Op::Unsplit { r } => Rat::from_dec(*r).recip(),
            _ => unreachable!(),
        };
        match lgen::rescale_twin_one(ledger, si) {
            None => {
                obs.excluded += 1;
                obs.class("twin_not_representable");
            }
            Some(twin) => {
                // classification
                if let Ok(m) = model::evaluate(ledger, &NoFx, Quirks::default()) {
                    if let Some(s) = m.secs.get(&sp.ticker) {
                        let between_bnb = s.disposals.iter().any(|d| d.date < sp.date && d.legs.iter().any(|l| l.rule == model::Rule::Bnb && l.acq.map(|a| a > sp.date).unwrap_or(false)));
                        let first_buy = ledger.iter().filter(|t| t.ticker == sp.ticker && matches!(t.op, Op::Buy { .. })).map(|t| t.date).min();
                        let pool_after = s.disposals.iter().any(|d| d.date > sp.date && d.legs.iter().any(|l| l.rule == model::Rule::S104)) && first_buy.map(|b| b < sp.date).unwrap_or(false);
                        let before_event = ledger.iter().any(|t| t.is_event() && t.ticker == sp.ticker && t.date > sp.date);
                        obs.nontrivial = between_bnb || pool_after || before_event;
                        obs.class_if(between_bnb, "split_between_disposal_and_30day_acquisition");
                        obs.class_if(pool_after, "split_between_acquisition_and_pool_disposal");
                        obs.class_if(before_event, "split_before_asset_event");
                    }
                }
                let r1 = tool::calc(&twin);
                match (&r0, &r1) {
                    (Outcome::Ok(a), Outcome::Ok(b)) => {
                        if let Err(e) = compare_scaled(a, b, &sp.ticker, sp.date, &ratio, obs, false) {
                            // F17: removing the split line can make two same-day sales of another
                            // security adjacent (or the split line separated them)
                            let mut scratch = Obs::default();
                            if (tool::has_nonadjacent_unequal_sells(ledger) || tool::has_nonadjacent_unequal_sells(&twin)) && compare_scaled(a, b, &sp.ticker, sp.date, &ratio, &mut scratch, true).is_ok() {
                                return tool::f17_verdict();
                            }
                            return Verdict::fail(format!(
                                "rewriting the ledger in post-split units changes the report: {e}\n--- original ---\n{}\n--- twin (split of {} removed) ---\n{}",
                                crate::led::to_dsl(ledger),
                                sp.date,
                                crate::led::to_dsl(&twin)
                            ));
                        }
                    }
                    (Outcome::Err(_), Outcome::Err(_)) => obs.class("both_rejected"),
                    (_, Outcome::Panic(p)) => return Verdict::fail(format!("calculate(twin) panicked: {} at {}", p.msg, p.loc)),
                    (a, b) => {
                        return Verdict::fail(format!(
                            "acceptance differs between ledger and its post-split twin: {} vs {}\n--- original ---\n{}\n--- twin ---\n{}",
                            a.describe(),
                            b.describe(),
                            crate::led::to_dsl(ledger),
                            crate::led::to_dsl(&twin)
                        ));
                    }
                }
            }
        }
    } else {
        obs.class("no_split_in_ledger");
    }
    // ---- relation 2: SPLIT r + UNSPLIT r with no trade in between changes nothing ----
    let tickers: Vec<String> = {
        let mut v: Vec<String> = ledger.iter().filter(|t| t.is_trade()).map(|t| t.ticker.clone()).collect();
        v.sort();
        v.dedup();
        v
    };
    if let (false, Some(first), Some(last)) = (tickers.is_empty(), ledger.iter().map(|t| t.date).min(), ledger.iter().map(|t| t.date).max()) {
        let tk = &tickers[(c.pick as usize) % tickers.len()];
        let span = (last - first).num_days().max(1);
        let ratio: Decimal = lgen::TERM_RATIOS[c.ins_ratio as usize % lgen::TERM_RATIOS.len()].parse().expect("lit");
        // find a date with no line of that ticker on it (nor on the next `gap` days)
        let mut date = first + Duration::days(((c.pick as i64) * 31) % (span + 3));
        let gap = c.ins_gap as i64 % 3; // 0 = same day, 1/2 = adjacent days
        let busy = |d: NaiveDate| ledger.iter().any(|t| &t.ticker == tk && t.date == d);
        let mut tries = 0;
        while (0..=gap).any(|k| busy(date + Duration::days(k))) && tries < 500 {
            date += Duration::days(1);
            tries += 1;
        }
        if tries < 500 {
            let mut l2 = ledger.clone();
            l2.push(Tx { date, ticker: tk.clone(), op: Op::Split { r: ratio } });
            l2.push(Tx { date: date + Duration::days(gap), ticker: tk.clone(), op: Op::Unsplit { r: ratio } });
            obs.class("inserted_split_unsplit_pair");
            let r2 = tool::calc(&l2);
            match (&r0, &r2) {
                (Outcome::Ok(a), Outcome::Ok(b)) => {
                    if let Err(e) = tool::reports_equivalent(a, b, obs) {
                        return Verdict::fail(format!(
                            "inserting SPLIT {ratio} + UNSPLIT {ratio} of {tk} on {date} (+{gap}d) changes the report: {e}\n{}",
                            crate::led::to_dsl(ledger)
                        ));
                    }
                }
                (Outcome::Err(_), Outcome::Err(_)) => {}
                (_, Outcome::Panic(p)) => return Verdict::fail(format!("calculate panicked: {} at {}", p.msg, p.loc)),
                (a, b) => {
                    return Verdict::fail(format!(
                        "inserting SPLIT {ratio} + UNSPLIT {ratio} of {tk} on {date} (+{gap}d) changes acceptance: {} vs {}\n{}",
                        a.describe(),
                        b.describe(),
                        crate::led::to_dsl(ledger)
                    ));
                }
            }
        }
    }
    Verdict::Pass
}

fn run(ctx: &Ctx) {
    if !ctx.run_prop("splits", RULE, ctx.cases(1500, 420_000), strat_split, check) {
        return;
    }
    if !ctx.run_prop("splits_with_asset_events", RULE, ctx.cases(800, 240_000), strat_events, check) {
        return;
    }
    ctx.run_prop("splits_shuffled", RULE, ctx.cases(600, 240_000), strat_shuffled, check);
}

fn replay(name: &str, case: &Value) -> Option<Verdict> {
    match name {
        "splits" | "splits_with_asset_events" | "splits_shuffled" => Some(replay_case::<Case, _>(case, check).unwrap_or_else(Verdict::Fail)),
        _ => None,
    }
}
