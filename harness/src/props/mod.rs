pub mod c01;
pub mod c02;
pub mod c03;
pub mod c04;
pub mod c05;
pub mod c06;
pub mod c07;
pub mod c08;
pub mod c09;
pub mod c10;
pub mod c11;
pub mod c12;
pub mod c13;
pub mod c14;
pub mod c15;
pub mod c16;
pub mod c17;
pub mod c20;
pub mod conv;
pub mod proc_checks;
pub mod common;

use crate::runner::{Ctx, Tier, Verdict};
use serde_json::Value;

pub struct PropDef {
    pub id: &'static str,
    pub run: fn(&Ctx),
    pub replay: fn(&str, &Value) -> Option<Verdict>,
    pub assumptions: &'static [&'static str],
}

pub fn all() -> Vec<PropDef> {
    vec![c01::def(), c02::def(), c03::def(), c04::def(), c05::def(), c06::def(), c07::def(), c08::def(), c09::def(), c10::def(), c11::def(), c12::def(), c13::def(), c14::def(), c15::def(), c16::def(), c17::def(), conv::def18(), conv::def19(), c20::def()]
}

pub fn find(id: &str) -> Option<PropDef> {
    all().into_iter().find(|p| p.id.eq_ignore_ascii_case(id))
}

pub const COMMON_ASSUMPTIONS: &[&str] = &[
    "explored bounds only: held on every generated case, not a proof of absence",
    "the reference model (harness/src/model.rs) is the intended reading of TCGA92 s105(1)/s106A/s104",
    "numeric comparison: quantities within 1e-12 relative, money within 1e-9 absolute (rust_decimal carries 28 significant digits)",
    "SPLIT/UNSPLIT or CAPRETURN/ACCUMULATION dated on a day that also has a BUY/SELL of the same security is outside the domain (docs and code disagree on its meaning)",
];

#[allow(dead_code)]
pub fn tier_unused(_: Tier) {}
