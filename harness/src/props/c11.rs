//! C11 — capital returns / accumulations move cost by exactly their amount; dividends only
//! touch dividend totals; no negative cost; over-large returns are refused (s122).

use crate::led::{Money, Op, Tx};
use crate::lgen::{self, GenCfg, GenLedger, SplitMode};
use crate::model::{self, NoFx, Quirks, Rule};
use crate::props::PropDef;
use crate::rat::Rat;
use crate::runner::{replay_case, Ctx, Obs, Tier, Verdict};
use crate::tool::{self, Outcome};
use cgt_core::{CgtError, TaxReport};
use chrono::{Duration, NaiveDate};
use proptest::prelude::*;
use rust_decimal::Decimal;
use serde::{Deserialize, Serialize};
use serde_json::Value;
use std::collections::BTreeMap;

pub fn def() -> PropDef {
    PropDef {
        id: "C11",
        run,
        replay,
        assumptions: &[
            "the tool's deliberate attachment of an adjustment to earlier acquisitions (stated in C12) is respected: asserted are the total moved, legs acquired after the event, signs, cancellation, the refusal boundary and dividend neutrality",
            "refusal boundary is decided where it is unambiguous: the security's earlier sales are pool-only (no same-day/30-day legs), so 'expenditure remaining on the shares held' is the exact pool cost",
        ],
    }
}

#[derive(Clone, Debug, Serialize, Deserialize)]
pub struct Case {
    pub gl: GenLedger,
    /// 0 capital return, 1 accumulation, 2 cancelling pair, 3 dividend lines, 4 refusal boundary
    pub kind: u8,
    pub pos: u16,
    pub amt: u16,
    pub fee: u16,
}

const RULE: &str = "accepted base ledger L (with splits and its own asset events) x one inserted event E at a random date: capital return sized 0..1.5x the exact remaining cost, accumulation, cancelling ACCUMULATION+CAPRETURN pair, DIVIDEND lines, or a return placed within 1% of the refusal boundary; non-trivial = E lands while a lot is partly consumed, or between a sale and its 30-day acquisition, or within 1% of the refusal boundary; distinct by DSL hash + event";

fn mk(cfg: GenCfg) -> BoxedStrategy<Case> {
    (lgen::ledger_strategy(cfg), 0u8..5, any::<u16>(), any::<u16>(), any::<u16>())
        .prop_map(|(gl, kind, pos, amt, fee)| Case { gl, kind, pos, amt, fee })
        .boxed()
}
fn strat_plain(t: Tier) -> BoxedStrategy<Case> {
    mk(GenCfg::basic().secs(2).days(3, t.pick(12, 24)).dividends(true))
}
fn strat_split(t: Tier) -> BoxedStrategy<Case> {
    mk(GenCfg::basic().secs(2).days(3, t.pick(12, 24)).splits(SplitMode::Terminating))
}
fn strat_events(t: Tier) -> BoxedStrategy<Case> {
    mk(GenCfg::basic().secs(2).days(3, t.pick(12, 24)).splits(SplitMode::Terminating).events(true).dividends(true))
}

/// per security: sum of leg costs + closing cost
fn cost_total(r: &TaxReport) -> BTreeMap<String, Rat> {
    let mut m: BTreeMap<String, Rat> = BTreeMap::new();
    for d in tool::all_disposals(r) {
        let e = m.entry(d.ticker.clone()).or_insert_with(Rat::zero);
        for l in &d.matches {
            *e += Rat::from_dec(l.allowable_cost);
        }
    }
    for h in &r.holdings {
        *m.entry(h.ticker.clone()).or_insert_with(Rat::zero) += Rat::from_dec(h.total_cost);
    }
    m
}

/// (d): no leg / holding with negative allowable cost. Returns description of the first one.
pub fn negative_cost(r: &TaxReport) -> Option<String> {
    let dust = Rat::from_str_dec("-0.000000001").expect("lit");
    for d in tool::all_disposals(r) {
        for l in &d.matches {
            if Rat::from_dec(l.allowable_cost) < dust {
                return Some(format!("{} {}: {:?} leg (acquired {:?}) has allowable cost {}", d.ticker, d.date, tool::rule_of(&l.rule), l.acquisition_date, l.allowable_cost));
            }
        }
    }
    for h in &r.holdings {
        if Rat::from_dec(h.total_cost) < dust {
            return Some(format!("holding {} has cost {}", h.ticker, h.total_cost));
        }
    }
    None
}

fn holding_before(ledger: &[Tx], tk: &str, date: NaiveDate) -> Rat {
    let mut h = Rat::zero();
    if let Ok(agg) = model::aggregate(ledger, &NoFx) {
        if let Some(days) = agg.get(tk) {
            for d in days {
                if d.date >= date {
                    break;
                }
                h = (&h + &d.b - &d.s) * &d.ratio;
            }
        }
    }
    h
}

fn free_date(ledger: &[Tx], tk: &str, mut date: NaiveDate) -> NaiveDate {
    while ledger.iter().any(|t| t.ticker == tk && t.date == date && (t.is_trade() || t.is_split() || t.is_event())) {
        date += Duration::days(1);
    }
    date
}

/// A date on which the base ledger already has a capital return / accumulation of `tk` (and no
/// trade or split of it): several events of one security on one date are well defined (each
/// moves cost by its own net amount), so E may share its date with one of them.
fn shared_event_date(ledger: &[Tx], tk: &str, pick: usize) -> Option<NaiveDate> {
    let dates: Vec<NaiveDate> = ledger
        .iter()
        .filter(|t| t.ticker == tk && t.is_event())
        .map(|t| t.date)
        .filter(|d| !ledger.iter().any(|t| t.ticker == tk && t.date == *d && (t.is_trade() || t.is_split())))
        .collect();
    if dates.is_empty() { None } else { Some(dates[pick % dates.len()]) }
}

/// F12 signature: the security's total cost is still conserved (C03 identity holds) and the
/// emulated pre-pass shows that apportioning the capital returns per share drives the adjusted
/// cost of at least one acquisition lot below zero (lots of very different unit cost), while
/// every return passed the tool's own total-based check.
fn is_f12(ledger: &[Tx], r: &TaxReport) -> bool {
    let _ = r;
    let mut scratch = Obs::default();
    let conserved = matches!(crate::props::c03::conservation(ledger, &mut scratch, false), Ok(None));
    if !conserved {
        return false;
    }
    let mut tks: Vec<String> = ledger.iter().filter(|t| matches!(t.op, Op::CapRet { .. })).map(|t| t.ticker.clone()).collect();
    tks.sort();
    tks.dedup();
    tks.iter().any(|tk| prepass(ledger, tk).1)
}

pub fn check(c: &Case, obs: &mut Obs) -> Verdict {
    let base = &c.gl.ledger;
    if lgen::has_excluded_placement(base) {
        obs.excluded += 1;
        return Verdict::Pass;
    }
    obs.hash = crate::led::hash_str(&format!("{}#{}#{}#{}#{}", crate::led::to_dsl(base), c.kind, c.pos, c.amt, c.fee));
    let r0 = match tool::calc(base) {
        Outcome::Ok(r) => r,
        Outcome::Err(_) => {
            obs.class("base_rejected");
            return Verdict::Pass;
        }
        Outcome::Panic(p) => return Verdict::fail(format!("calculate panicked: {} at {}", p.msg, p.loc)),
    };
    // (d) on the base report itself
    if let Some(neg) = negative_cost(&r0) {
        if has_f11_gap(base) {
            return f11();
        }
        if is_f12(base, &r0) {
            return f12();
        }
        return Verdict::fail(format!("negative allowable cost: {neg}\n{}", crate::led::to_dsl(base)));
    }
    let tickers: Vec<String> = {
        let mut v: Vec<String> = base.iter().filter(|t| t.is_trade()).map(|t| t.ticker.clone()).collect();
        v.sort();
        v.dedup();
        v
    };
    let (Some(first), Some(last)) = (base.iter().map(|t| t.date).min(), base.iter().map(|t| t.date).max()) else {
        return Verdict::Pass;
    };
    if tickers.is_empty() {
        return Verdict::Pass;
    }
    let tk = tickers[(c.pos as usize) % tickers.len()].clone();
    let span = (last - first).num_days() + 20;
    let mut date = free_date(base, &tk, first - Duration::days(5) + Duration::days((c.pos as i64 * 7) % span.max(1)));
    if c.fee % 4 == 3 && c.kind != 3 {
        if let Some(d) = shared_event_date(base, &tk, c.pos as usize) {
            date = d;
            obs.class("event_shares_its_date_with_another_event");
        }
    }
    let held = holding_before(base, &tk, date);
    let fees = if c.fee % 3 == 0 { Decimal::new((c.fee / 3 % 300) as i64, 2) } else { Decimal::ZERO };
    let m = model::evaluate(base, &NoFx, Quirks::default()).ok();
    // classification of where E lands
    let (partly, between) = m
        .as_ref()
        .and_then(|m| m.secs.get(&tk))
        .map(|s| {
            let between = s.disposals.iter().any(|d| d.date < date && d.legs.iter().any(|l| l.rule == Rule::Bnb && l.acq.map(|a| a > date).unwrap_or(false)));
            let sold_before = s.disposals.iter().any(|d| d.date < date);
            (sold_before && held.is_pos(), between)
        })
        .unwrap_or((false, false));
    obs.class_if(partly, "event_while_lot_partly_consumed");
    obs.class_if(between, "event_between_sale_and_30day_acquisition");
    obs.class_if(!held.is_pos(), "event_while_nothing_held");
    obs.nontrivial = partly || between;
    let qshares = Decimal::from(10);
    let dsl_base = crate::led::to_dsl(base);
    match c.kind {
        3 => {
            // (f) dividends change only dividend totals
            let mut l2 = base.clone();
            let n = 1 + (c.amt % 3) as usize;
            for k in 0..n {
                let name = if k == 1 { "NEVERHELD".to_string() } else { tk.clone() };
                l2.push(Tx {
                    date: date + Duration::days(k as i64 * 3),
                    ticker: name,
                    op: Op::Div { total: Money::gbp(Decimal::new(1 + c.amt as i64, 2)), tax: Money::gbp(fees) },
                });
            }
            obs.class("dividend_lines");
            if obs.sample.is_none() {
                obs.sample = Some(tool::sample_of(&l2));
            }
            let r1 = match tool::calc(&l2) {
                Outcome::Ok(r) => r,
                o => return Verdict::fail(format!("adding DIVIDEND lines changed acceptance: {}\n{}", o.describe(), crate::led::to_dsl(&l2))),
            };
            let strip = |r: &TaxReport| {
                let mut x = r.clone();
                for y in &mut x.tax_years {
                    y.dividend_income = Decimal::ZERO;
                    y.dividend_tax_paid = Decimal::ZERO;
                }
                x.transactions.clear();
                x
            };
            if strip(&r0) != strip(&r1) {
                let mut o2 = Obs::default();
                let why = tool::reports_equivalent(&strip(&r0), &strip(&r1), &mut o2).err().unwrap_or_else(|| "not bit-identical".into());
                return Verdict::fail(format!("DIVIDEND lines changed something other than dividend totals: {why}\n{}", crate::led::to_dsl(&l2)));
            }
            Verdict::Pass
        }
        2 => {
            // (c) accumulation + capital return of equal net amount on one date cancel
            let x = Decimal::new(1 + c.amt as i64, 2);
            let mut l2 = base.clone();
            l2.push(Tx { date, ticker: tk.clone(), op: Op::Acc { q: qshares, total: Money::gbp(x), tax: Money::gbp(fees) } });
            l2.push(Tx { date, ticker: tk.clone(), op: Op::CapRet { q: qshares, total: Money::gbp(x + fees), fees: Money::gbp(fees) } });
            if c.amt % 2 == 0 {
                let n = l2.len();
                l2.swap(n - 1, n - 2);
            }
            obs.class("cancelling_pair");
            if obs.sample.is_none() {
                obs.sample = Some(tool::sample_of(&l2));
            }
            match tool::calc(&l2) {
                Outcome::Ok(r1) => match tool::reports_equivalent(&r0, &r1, obs) {
                    Ok(()) => Verdict::Pass,
                    Err(e) => Verdict::fail(format!("ACCUMULATION {x} + CAPRETURN net {x} on {date} do not cancel: {e}\n{}", crate::led::to_dsl(&l2))),
                },
                Outcome::Err(e) => {
                    // with nothing held neither line has an effect and the return cannot be
                    // absorbed: refusal citing s122 is within the statement
                    let msg = e.to_string();
                    if cites_s122(&msg) && !held.is_pos() {
                        obs.class("pair_refused_nothing_held");
                        Verdict::Pass
                    } else if cites_s122(&msg) && has_f11_gap(base) {
                        // the base ledger already holds an over-large return the tool accepted (F11)
                        f11()
                    } else if cites_s122(&msg) && prepass(base, &tk).1 {
                        // an earlier return of the base ledger, apportioned per share, left a lot with
                        // negative adjusted cost (root cause of F12); the tool's basis is then negative
                        f12()
                    } else {
                        Verdict::fail(format!("cancelling pair refused (held before: {held}): {msg}\n{}", crate::led::to_dsl(&l2)))
                    }
                }
                Outcome::Panic(p) => Verdict::fail(format!("calculate panicked: {} at {}", p.msg, p.loc)),
            }
        }
        4 => boundary(c, base, &r0, &tk, obs),
        _ => {
            // (a)+(b): one event E
            let is_cap = c.kind == 0;
            // exact remaining cost per model when defined, else the report's total for sizing
            let remaining = r0.holdings.iter().find(|h| h.ticker == tk).map(|h| Rat::from_dec(h.total_cost)).unwrap_or_else(Rat::zero);
            let net: Decimal = if is_cap {
                let pct = Rat::from_frac((c.amt % 150) as i64 + 1, 100);
                let v = (&remaining * &pct).to_f64();
                Decimal::new((v * 100.0).floor().max(1.0) as i64, 2)
            } else {
                Decimal::new(1 + c.amt as i64 * 3, 2)
            };
            let e = if is_cap {
                Tx { date, ticker: tk.clone(), op: Op::CapRet { q: qshares, total: Money::gbp(net + fees), fees: Money::gbp(fees) } }
            } else {
                Tx { date, ticker: tk.clone(), op: Op::Acc { q: qshares, total: Money::gbp(net), tax: Money::gbp(fees) } }
            };
            let mut l2 = base.clone();
            l2.insert((c.amt as usize * (base.len() + 1)) >> 16, e);
            obs.class(if is_cap { "capital_return" } else { "accumulation" });
            if obs.sample.is_none() {
                obs.sample = Some(tool::sample_of(&l2));
            }
            let r1 = match tool::calc(&l2) {
                Outcome::Ok(r) => r,
                Outcome::Err(e) => {
                    let msg = e.to_string();
                    if is_cap && cites_s122(&msg) {
                        // refusal is judged by the boundary stratum; here only: never refuse a return
                        // that is no larger than what the pool still carries when nothing but the
                        // pool has been used
                        obs.class("refused_s122");
                        return Verdict::Pass;
                    }
                    return Verdict::fail(format!("adding one event made the ledger fail: {msg}\n{}", crate::led::to_dsl(&l2)));
                }
                Outcome::Panic(p) => return Verdict::fail(format!("calculate panicked: {} at {}", p.msg, p.loc)),
            };
            // (d)
            if let Some(neg) = negative_cost(&r1) {
                if has_f11_gap(&l2) {
                    return f11();
                }
                if is_f12(&l2, &r1) {
                    return f12();
                }
                return Verdict::fail(format!("negative allowable cost after the event: {neg}\n{}", crate::led::to_dsl(&l2)));
            }
            // (a) exactness per security
            let t0 = cost_total(&r0);
            let t1 = cost_total(&r1);
            for k in t0.keys().chain(t1.keys()) {
                let a = t0.get(k).cloned().unwrap_or_else(Rat::zero);
                let b = t1.get(k).cloned().unwrap_or_else(Rat::zero);
                let expect = if *k == tk && held.is_pos() {
                    if is_cap { Rat::zero() - Rat::from_dec(net) } else { Rat::from_dec(net) }
                } else {
                    Rat::zero()
                };
                let diff = &b - &a;
                if (&diff - &expect).abs() > tool::tol_money() {
                    return Verdict::fail(format!(
                        "{k}: event of net {net} on {date} (held before: {held}) moved total allowable cost by {diff}, expected {expect}\n--- without ---\n{dsl_base}\n--- with ---\n{}",
                        crate::led::to_dsl(&l2)
                    ));
                }
            }
            // (b) legs acquired after the event date keep their cost; so do other securities' legs
            let emptied_before: Option<NaiveDate> = model::aggregate(base, &NoFx).ok().and_then(|agg| {
                let mut z = None;
                let mut h = Rat::zero();
                for d in agg.get(&tk)?.iter() {
                    if d.date >= date {
                        break;
                    }
                    h = (&h + &d.b - &d.s) * &d.ratio;
                    if h.is_zero() && d.s.is_pos() {
                        z = Some(d.date);
                    }
                }
                z
            });
            obs.class_if(emptied_before.is_some(), "holding_emptied_before_the_event");
            let d0 = tool::all_disposals(&r0);
            let d1 = tool::all_disposals(&r1);
            if d0.len() != d1.len() {
                return Verdict::fail(format!("event changed the number of disposals {} -> {}", d0.len(), d1.len()));
            }
            for (a, b) in d0.iter().zip(d1.iter()) {
                let ga = tool::group_tool_legs(a);
                let gb = tool::group_tool_legs(b);
                if ga.keys().collect::<Vec<_>>() != gb.keys().collect::<Vec<_>>() {
                    return Verdict::fail(format!("event changed the leg structure of {} {}: {:?} vs {:?}", a.ticker, a.date, tool::describe_tool_legs(a), tool::describe_tool_legs(b)));
                }
                for (k, (q, cst, _)) in &ga {
                    let (q2, c2, _) = &gb[k];
                    if (q - q2).abs() > tool::tol_qty() * q.abs().max(Rat::one()) {
                        return Verdict::fail(format!("event changed a matched quantity in {} {}: {q} vs {q2}", a.ticker, a.date));
                    }
                    // shares sold on or before a day that ended with nothing held were not
                    // "already held" when the event came: their legs keep their cost too
                    // (a 30-day leg reaching past that day is left out: the tool counts shares per
                    // acquisition lot, so the later acquisition counts as held at the event)
                    let unaffected = a.ticker != tk
                        || k.1.map(|acq| acq > date).unwrap_or(false)
                        || emptied_before.map(|z| a.date <= z && k.1.map(|acq| acq <= z).unwrap_or(true)).unwrap_or(false);
                    if unaffected && (cst - c2).abs() > tool::tol_money() {
                        return Verdict::fail(format!(
                            "{} {}: leg {:?} (acquired after the event of {date}, or sold before the holding was emptied, or other security) changed cost {cst} -> {c2}\n{}",
                            a.ticker,
                            a.date,
                            k,
                            crate::led::to_dsl(&l2)
                        ));
                    }
                }
                if !tool::dec_money_close(a.proceeds, b.proceeds, obs) || !tool::dec_money_close(a.gross_proceeds, b.gross_proceeds, obs) {
                    return Verdict::fail(format!("event changed proceeds of {} {}", a.ticker, a.date));
                }
            }
            // holdings quantities unchanged
            let h0 = tool::holdings_map(&r0);
            let h1 = tool::holdings_map(&r1);
            for (k, (q, _)) in &h0 {
                if h1.get(k).map(|x| x.0) != Some(*q) {
                    return Verdict::fail(format!("event changed the closing quantity of {k}"));
                }
            }
            Verdict::Pass
        }
    }
}

/// the refusal "cites TCGA92 s122" in any spelling (S122, s122, s.122, section 122)
fn cites_s122(msg: &str) -> bool {
    let m = msg.to_lowercase().replace(['.', ' '], "");
    m.contains("s122") || m.contains("section122")
}

fn f12() -> Verdict {
    Verdict::Known {
        finding: "F12",
        what: "a leg or holding is reported with negative allowable cost: a capital return is apportioned per share over acquisition lots of very different unit cost while the refusal check looks only at their total".into(),
    }
}

/// (e) refusal boundary where unambiguous: security `tk` has only pool legs so far (or no sale);
/// insert one CAPRETURN after the last line: net > exact remaining pool cost => Err citing S122;
/// net <= it => accepted.
fn boundary(c: &Case, base: &[Tx], r0: &TaxReport, tk: &str, obs: &mut Obs) -> Verdict {
    // base must not itself contain events for this security (so the model's pool cost is exact)
    if base.iter().any(|t| t.is_event() && t.ticker == tk) {
        obs.class("boundary_skipped_base_has_events");
        return Verdict::Pass;
    }
    let Ok(m) = model::evaluate(base, &NoFx, Quirks::default()) else { return Verdict::Pass };
    let Some(s) = m.secs.get(tk) else { return Verdict::Pass };
    let last = base.iter().map(|t| t.date).max().expect("nonempty");
    let date = last + Duration::days(1 + (c.pos % 50) as i64);
    if !s.closing_qty.is_pos() {
        obs.class("boundary_skipped_nothing_held");
        return Verdict::Pass;
    }
    let pool_only = s.disposals.iter().all(|d| d.legs.iter().all(|l| l.rule == Rule::S104));
    let remaining = s.closing_cost.clone();
    // also cross-check the tool's own closing cost with the model's
    let tool_close = r0.holdings.iter().find(|h| h.ticker == tk).map(|h| Rat::from_dec(h.total_cost)).unwrap_or_else(Rat::zero);
    if (&tool_close - &remaining).abs() > tool::tol_money() {
        return Verdict::fail(format!("closing cost of {tk}: tool {tool_close} vs model {remaining}"));
    }
    let fees = if c.fee % 2 == 0 { Decimal::new((c.fee / 2 % 300) as i64, 2) } else { Decimal::ZERO };
    // net amounts around the boundary: 99%..101% in pence steps, exactly at, and far above
    let rem_pence = (&remaining * Rat::from_i64(100)).to_f64();
    let at = Decimal::new(rem_pence.floor() as i64, 2); // largest 2dp amount <= remaining
    let net = match c.amt % 6 {
        0 => at,
        1 => at + Decimal::new(1, 2),
        2 => (at * Decimal::new(99, 2)).round_dp(2),
        3 => (at * Decimal::new(101, 2)).round_dp(2) + Decimal::new(1, 2),
        4 => at * Decimal::from(3) + Decimal::ONE,
        _ => (at * Decimal::new(50, 2)).round_dp(2),
    };
    if net <= Decimal::ZERO {
        return Verdict::Pass;
    }
    let mut l2 = base.to_vec();
    // one return of `net`, or the same net amount as two returns on that date (what the shares
    // can absorb is the same: after the first, only the rest is left for the second)
    let first_part = (net * Decimal::new(1 + (c.pos % 9) as i64, 1)).round_dp(2);
    if c.pos % 3 == 1 && first_part > Decimal::ZERO && first_part < net {
        obs.class("boundary_return_in_two_same_day_lines");
        l2.push(Tx { date, ticker: tk.to_string(), op: Op::CapRet { q: Decimal::from(10), total: Money::gbp(first_part + fees), fees: Money::gbp(fees) } });
        l2.push(Tx { date, ticker: tk.to_string(), op: Op::CapRet { q: Decimal::from(7), total: Money::gbp(net - first_part), fees: Money::gbp(Decimal::ZERO) } });
    } else {
        l2.push(Tx { date, ticker: tk.to_string(), op: Op::CapRet { q: Decimal::from(10), total: Money::gbp(net + fees), fees: Money::gbp(fees) } });
    }
    // numeric comparison rule: within 1e-9 of the boundary either verdict is accepted (the tool's
    // own basis is a rounded decimal)
    let tol = tool::tol_money();
    let exceeds = Rat::from_dec(net) > &remaining + &tol;
    let undecided = !exceeds && Rat::from_dec(net) > &remaining - &tol;
    let near = {
        let r = Rat::from_dec(net);
        let lo = &remaining * Rat::from_frac(99, 100);
        let hi = &remaining * Rat::from_frac(101, 100) + Rat::from_frac(1, 50);
        r >= lo && r <= hi
    };
    obs.nontrivial = obs.nontrivial || near;
    obs.class_if(near, "within_1pct_of_refusal_boundary");
    obs.class(if exceeds { "boundary_exceeds" } else { "boundary_within" });
    obs.class_if(pool_only, "boundary_pool_only_history");
    if obs.sample.is_none() {
        obs.sample = Some(tool::sample_of(&l2));
    }
    // total expenditure ever incurred on the security
    let ever: Rat = model::aggregate(base, &NoFx).ok().and_then(|a| a.get(tk).map(|d| d.iter().map(|x| x.cb.clone()).sum())).unwrap_or_else(Rat::zero);
    match tool::calc(&l2) {
        Outcome::Panic(p) => Verdict::fail(format!("calculate panicked: {} at {}", p.msg, p.loc)),
        Outcome::Ok(r1) => {
            if let Some(neg) = negative_cost(&r1) {
                if has_f11_gap(&l2) {
                    return f11();
                }
                if is_f12(&l2, &r1) {
                    return f12();
                }
                return Verdict::fail(format!("negative allowable cost: {neg}\n{}", crate::led::to_dsl(&l2)));
            }
            if Rat::from_dec(net) > ever {
                return Verdict::fail(format!("capital return of net {net} exceeds all expenditure ever incurred on {tk} ({ever}) but was accepted\n{}", crate::led::to_dsl(&l2)));
            }
            if exceeds && pool_only {
                // F11: the tool decides on the full cost of every FIFO lot that still has a share,
                // not on the expenditure remaining in the pool. Attributed only when the tool's
                // verdict is exactly what that rule gives.
                let thr = fifo_full_lot_cost(base, tk);
                if Rat::from_dec(net) <= thr {
                    return f11();
                }
                return Verdict::fail(format!(
                    "capital return of net {net} exceeds the remaining pool cost {remaining} of {tk} (and even the full cost {thr} of all lots with a share left) but was accepted\n{}",
                    crate::led::to_dsl(&l2)
                ));
            }
            Verdict::Pass
        }
        Outcome::Err(e) => {
            let msg = e.to_string();
            if !cites_s122(&msg) {
                return Verdict::fail(format!("capital return refused with an error not citing S122: {msg}"));
            }
            if !exceeds && !undecided && pool_only {
                let thr = fifo_full_lot_cost(base, tk);
                if Rat::from_dec(net) > thr {
                    return f11();
                }
                return Verdict::fail(format!(
                    "capital return of net {net} is within the remaining pool cost {remaining} of {tk} but was refused: {msg}\n{}",
                    crate::led::to_dsl(&l2)
                ));
            }
            Verdict::Pass
        }
    }
}

fn f11() -> Verdict {
    Verdict::Known {
        finding: "F11",
        what: "the s122 refusal boundary is decided on the full cost of every FIFO lot that still has a share left, not on the expenditure remaining in the Section 104 pool: over-large returns are accepted (and earlier pool disposals re-costed), or absorbable ones refused".into(),
    }
}

#[derive(Debug, Clone)]
pub struct CapretInfo {
    pub date: NaiveDate,
    pub net: Rat,
    /// expenditure remaining on the shares still held, lot by lot (cost x held / original)
    pub per_share_basis: Rat,
    /// what the tool compares with: full cost of every lot that still has a share left
    pub full_lot_basis: Rat,
}

/// Emulation of the tool's cost pre-pass for one security (same-day then first-in-first-out
/// consumption, adjustments apportioned by held quantity), used only to *attribute* failures to
/// finding F11: it reports, for every CAPRETURN, the basis the tool checks against and the
/// per-share basis it should check against.
pub fn prepass_caprets(ledger: &[Tx], tk: &str) -> Vec<CapretInfo> {
    prepass(ledger, tk).0
}

/// (capital returns seen by the pre-pass, whether some lot ends with negative adjusted cost)
pub fn prepass(ledger: &[Tx], tk: &str) -> (Vec<CapretInfo>, bool) {
    struct Lot {
        date: NaiveDate,
        orig: Rat,
        consumed: Rat,
        cost: Rat,
    }
    let mut out = vec![];
    let Ok(agg) = model::aggregate(ledger, &NoFx) else { return (out, false) };
    let Some(days) = agg.get(tk) else { return (out, false) };
    let mut lots: Vec<Lot> = vec![];
    let apply = |lots: &mut Vec<Lot>, adj: &Rat| {
        let total: Rat = lots.iter().map(|l| &l.orig - &l.consumed).sum();
        if total.is_zero() {
            return;
        }
        for l in lots.iter_mut() {
            let held = &l.orig - &l.consumed;
            if held.is_pos() {
                l.cost += adj * &held / &total;
            }
        }
    };
    for d in days {
        for a in &d.acc_total {
            apply(&mut lots, a);
        }
        for c in &d.capret_net {
            let per_share: Rat = lots.iter().filter(|l| l.orig.is_pos()).map(|l| &l.cost * (&l.orig - &l.consumed) / &l.orig).sum();
            let full: Rat = lots.iter().filter(|l| (&l.orig - &l.consumed).is_pos()).map(|l| l.cost.clone()).sum();
            out.push(CapretInfo { date: d.date, net: c.clone(), per_share_basis: per_share, full_lot_basis: full.clone() });
            if *c <= full {
                apply(&mut lots, &(Rat::zero() - c));
            }
        }
        if d.b.is_pos() {
            lots.push(Lot { date: d.date, orig: d.b.clone(), consumed: Rat::zero(), cost: d.cb.clone() });
        }
        let mut r = d.s.clone();
        if r.is_pos() {
            for l in lots.iter_mut().filter(|l| l.date == d.date) {
                let take = r.clone().min(&l.orig - &l.consumed);
                l.consumed += &take;
                r -= &take;
            }
            for l in lots.iter_mut().filter(|l| l.date < d.date) {
                if !r.is_pos() {
                    break;
                }
                let take = r.clone().min(&l.orig - &l.consumed);
                l.consumed += &take;
                r -= &take;
            }
        }
        for l in lots.iter_mut() {
            l.orig = &l.orig * &d.ratio;
            l.consumed = &l.consumed * &d.ratio;
        }
    }
    let neg = lots.iter().any(|l| l.cost.is_neg());
    (out, neg)
}

/// F11 signature (general form): some CAPRETURN of the security has a net amount above the
/// per-share remaining basis but not above the full-lot basis the tool checks.
fn has_f11_gap(ledger: &[Tx]) -> bool {
    let mut tks: Vec<String> = ledger.iter().filter(|t| matches!(t.op, Op::CapRet { .. })).map(|t| t.ticker.clone()).collect();
    tks.sort();
    tks.dedup();
    tks.iter().any(|tk| prepass_caprets(ledger, tk).iter().any(|c| c.net > c.per_share_basis && c.net <= c.full_lot_basis))
}

/// Emulation of the tool's refusal threshold for a pool-only history without asset events:
/// lots are consumed first-in-first-out by sales, and the threshold is the *full* cost of every
/// lot that still has a share left.
fn fifo_full_lot_cost(base: &[Tx], tk: &str) -> Rat {
    let mut lots: Vec<(Rat, Rat)> = vec![];
    if let Ok(agg) = model::aggregate(base, &NoFx) {
        if let Some(days) = agg.get(tk) {
            for d in days {
                let mut r = d.s.clone();
                for lot in lots.iter_mut() {
                    if !r.is_pos() {
                        break;
                    }
                    let take = r.clone().min(lot.0.clone());
                    lot.0 -= &take;
                    r -= &take;
                }
                if d.b.is_pos() {
                    lots.push((d.b.clone(), d.cb.clone()));
                }
                for lot in lots.iter_mut() {
                    lot.0 = &lot.0 * &d.ratio;
                }
            }
        }
    }
    lots.iter().filter(|l| l.0.is_pos()).map(|l| l.1.clone()).sum()
}

fn run(ctx: &Ctx) {
    if !ctx.run_prop("plain", RULE, ctx.cases(1500, 420_000), strat_plain, check) {
        return;
    }
    if !ctx.run_prop("with_splits", RULE, ctx.cases(1000, 300_000), strat_split, check) {
        return;
    }
    ctx.run_prop("with_own_events", RULE, ctx.cases(800, 240_000), strat_events, check);
}

fn replay(name: &str, case: &Value) -> Option<Verdict> {
    match name {
        "plain" | "with_splits" | "with_own_events" => Some(replay_case::<Case, _>(case, check).unwrap_or_else(Verdict::Fail)),
        _ => None,
    }
}
