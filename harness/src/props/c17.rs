//! C17 — text, JSON and PDF front-ends present the same figures as the computed report.
//! (The MCP front-end is compared with the CLI in C20's process stratum and in `mcp_figures`.)

use crate::led::{Op, Tx};
use crate::lgen::{self, GenCfg, GenLedger, SplitMode};
use crate::props::PropDef;
use crate::rat::Rat;
use crate::runner::{replay_case, Ctx, Obs, Tier, Verdict};
use crate::tool::{self, Outcome};
use cgt_core::{MatchRule, TaxReport};
use chrono::NaiveDate;
use proptest::prelude::*;
use rust_decimal::prelude::ToPrimitive;
use rust_decimal::Decimal;
use serde::{Deserialize, Serialize};
use serde_json::Value;

pub fn def() -> PropDef {
    PropDef {
        id: "C17",
        run,
        replay,
        assumptions: &[
            "figures are located through the documented layout of each front-end (docs/spec.md 'Output Formats'); a figure is accepted if it equals the computed value in full (within 1e-9) or rounded half-away-from-zero to pence; '-0.00' and '0.00' are the same figure",
            "PDF figures are read from the text runs of the compiled Typst document through the verif-hooks feature (no PDF text extractor exists in the image)",
        ],
    }
}

// ---------- own formatting / parsing ----------

fn group(ip: &str) -> String {
    let mut out = String::new();
    for (i, ch) in ip.chars().enumerate() {
        if i > 0 && (ip.len() - i) % 3 == 0 {
            out.push(',');
        }
        out.push(ch);
    }
    out
}

/// canonical GBP rendering: half away from zero to pence, thousands separators, -£ for negatives
pub fn gbp(v: &Rat) -> String {
    let s = v.abs().to_fixed(2);
    let (ip, fp) = s.split_once('.').unwrap_or((&s, "00"));
    let neg = v.round_half_away_scaled(2) < num_bigint::BigInt::from(0);
    format!("{}£{}.{}", if neg { "-" } else { "" }, group(ip), fp)
}

/// Parse a shown money token: optional '-' or U+2212, '£', digits with commas, optional fraction.
/// Returns (value, well_formed_pence) where well_formed_pence = exactly two decimals and correct grouping.
pub fn parse_gbp(tok: &str) -> Option<(Rat, bool)> {
    let t = tok.trim();
    let (neg, rest) = if let Some(r) = t.strip_prefix('-') { (true, r) } else if let Some(r) = t.strip_prefix('\u{2212}') { (true, r) } else { (false, t) };
    let rest = rest.strip_prefix('£')?;
    if rest.is_empty() || !rest.chars().all(|c| c.is_ascii_digit() || c == ',' || c == '.') {
        return None;
    }
    let (ip, fp) = rest.split_once('.').unwrap_or((rest, ""));
    let plain = ip.replace(',', "");
    let well = fp.len() == 2 && group(&plain) == ip;
    let v = Rat::from_str_dec(&format!("{plain}.{}", if fp.is_empty() { "0" } else { fp }))?;
    Some((if neg { Rat::zero() - v } else { v }, well))
}

/// shown figure equals the computed value in full, or rounded half away from zero to pence
fn money_ok(shown: &Rat, computed: &Rat) -> bool {
    let full = (shown - computed).abs() <= tool::tol_money();
    let rounded = Rat::new(computed.round_half_away_scaled(2), num_bigint::BigInt::from(100));
    full || *shown == rounded
}

/// A figure the formatter derives by a division (average cost, unit price): the "computed value"
/// is the exact quotient or the quotient in the tool's own 28-digit decimal arithmetic (they
/// differ in the last digit, which can decide a rounding when FX conversion left 28-digit inputs).
fn quotient_ok(shown: &Rat, num: Decimal, den: Decimal) -> bool {
    if den.is_zero() {
        return true;
    }
    if money_ok(shown, &(Rat::from_dec(num) / Rat::from_dec(den))) {
        return true;
    }
    match num.checked_div(den) {
        Some(q) => money_ok(shown, &Rat::from_dec(q)),
        None => false,
    }
}

fn trimmed(d: Decimal) -> String {
    let s = d.to_string();
    if s.contains('.') { s.trim_end_matches('0').trim_end_matches('.').to_string() } else { s }
}

fn uk_date(d: NaiveDate) -> String {
    d.format("%d/%m/%Y").to_string()
}
fn tax_year_label(y: u16) -> String {
    format!("{}/{:02}", y, (y + 1) % 100)
}

// ---------- plain text ----------

/// every money figure on a line: optional '-', '£', digits/commas, optional fraction (figures
/// that run into each other because a column overflowed are still separated at the '£')
fn money_tokens(line: &str) -> Vec<String> {
    let chars: Vec<char> = line.chars().collect();
    let mut out = vec![];
    let mut i = 0;
    while i < chars.len() {
        if chars[i] == '£' {
            let mut tok = String::new();
            if i > 0 && (chars[i - 1] == '-' || chars[i - 1] == '\u{2212}') {
                tok.push('-');
            }
            tok.push('£');
            let mut j = i + 1;
            while j < chars.len() && (chars[j].is_ascii_digit() || chars[j] == ',' || chars[j] == '.') {
                tok.push(chars[j]);
                j += 1;
            }
            out.push(tok.trim_end_matches(|c| c == ',' || c == '.').to_string());
            i = j;
        } else {
            i += 1;
        }
    }
    out
}

pub fn check_text(r: &TaxReport, text: &str) -> Result<(), String> {
    let lines: Vec<&str> = text.lines().collect();
    let sec = |name: &str| lines.iter().position(|l| l.trim() == name);
    let (Some(i_sum), Some(i_det), Some(i_hold), Some(i_tx)) = (sec("# SUMMARY"), sec("# TAX YEAR DETAILS"), sec("# HOLDINGS"), sec("# TRANSACTIONS")) else {
        return Err("text report lacks a documented section".into());
    };
    // summary rows
    for y in &r.tax_years {
        let label = tax_year_label(y.period.start_year());
        let Some(row) = lines[i_sum..i_det].iter().find(|l| l.starts_with(&label)) else {
            return Err(format!("text: no summary row for {label}"));
        };
        let count_tok = row.split_whitespace().nth(1).unwrap_or("");
        let money = money_tokens(row);
        if money.len() != 6 {
            return Err(format!("text: summary row for {label} has {} money figures: {row}", money.len()));
        }
        let toks: Vec<&str> = [label.as_str(), count_tok].into_iter().chain(money.iter().map(|s| s.as_str())).collect();
        if toks[1] != y.disposal_count().to_string() {
            return Err(format!("text: {label} disposals shown {} computed {}", toks[1], y.disposal_count()));
        }
        let exp = [
            ("net gain", Rat::from_dec(y.net_gain)),
            ("total gain", Rat::from_dec(y.total_gain)),
            ("total loss", Rat::from_dec(y.total_loss)),
            ("proceeds", Rat::from_dec(y.gross_proceeds())),
            ("exemption", Rat::from_dec(y.exempt_amount)),
            ("taxable gain", (Rat::from_dec(y.net_gain) - Rat::from_dec(y.exempt_amount)).max(Rat::zero())),
        ];
        for (k, (name, v)) in exp.iter().enumerate() {
            let Some((shown, well)) = parse_gbp(toks[2 + k]) else { return Err(format!("text: {label} {name}: '{}' is not a GBP figure", toks[2 + k])) };
            if !well {
                return Err(format!("text: {label} {name}: '{}' is not '£' with thousands separators and pence", toks[2 + k]));
            }
            if !money_ok(&shown, v) {
                return Err(format!("text: {label} {name} shown {} but computed {v} (pence, half away from zero: {})", toks[2 + k], gbp(v)));
            }
        }
    }
    // disposals
    let mut cur = i_det;
    for y in &r.tax_years {
        let head = format!("## {}", tax_year_label(y.period.start_year()));
        let Some(p) = lines[cur..i_hold].iter().position(|l| l.trim() == head) else { return Err(format!("text: no details heading '{head}'")) };
        cur += p + 1;
        for (i, d) in y.disposals.iter().enumerate() {
            let want_head = format!("{}) SELL {} {} on {} - ", i + 1, trimmed(d.quantity), d.ticker, uk_date(d.date));
            let Some(p) = lines[cur..i_hold].iter().position(|l| l.starts_with(&want_head)) else {
                return Err(format!("text: no disposal line starting '{want_head}'"));
            };
            let hl = lines[cur + p];
            cur += p + 1;
            let gain = Rat::from_dec(d.net_gain_or_loss());
            let tail = &hl[want_head.len()..];
            let (kind, fig) = tail.split_once(' ').unwrap_or((tail, ""));
            let want_kind = if gain.is_neg() { "LOSS" } else { "GAIN" };
            if kind != want_kind {
                return Err(format!("text: disposal {} {} labelled {kind}, computed result {gain}", d.ticker, d.date));
            }
            let Some((shown, well)) = parse_gbp(fig) else { return Err(format!("text: disposal header figure '{fig}'")) };
            if !well || !money_ok(&shown, &gain.abs()) {
                return Err(format!("text: disposal {} {} header shows {fig}, computed |result| {} (pence: {})", d.ticker, d.date, gain.abs(), gbp(&gain.abs())));
            }
            // legs
            for m in &d.matches {
                let want = match m.rule {
                    MatchRule::SameDay => format!("   Same Day: {} shares", trimmed(m.quantity)),
                    MatchRule::BedAndBreakfast => format!("   B&B: {} shares from {}", trimmed(m.quantity), m.acquisition_date.map(uk_date).unwrap_or_default()),
                    MatchRule::Section104 => format!("   Section 104: {} shares @ ", trimmed(m.quantity)),
                };
                let Some(p) = lines[cur..i_hold].iter().take(d.matches.len() + 8).position(|l| l.starts_with(&want)) else {
                    return Err(format!("text: disposal {} {}: no leg line '{want}'", d.ticker, d.date));
                };
                let l = lines[cur + p];
                if m.rule == MatchRule::Section104 && !m.quantity.is_zero() {
                    let fig = l[want.len()..].trim();
                    let unit = Rat::from_dec(m.allowable_cost) / Rat::from_dec(m.quantity);
                    let Some((shown, _)) = parse_gbp(fig) else { return Err(format!("text: S104 unit cost '{fig}'")) };
                    if !quotient_ok(&shown, m.allowable_cost, m.quantity) {
                        return Err(format!("text: disposal {} {}: S104 unit cost shown {fig}, computed {unit}", d.ticker, d.date));
                    }
                }
            }
            // figures block
            let block: Vec<&str> = lines[cur..i_hold].iter().take_while(|l| !l.trim().is_empty()).cloned().collect();
            let find = |prefix: &str| block.iter().find(|l| l.trim_start().starts_with(prefix)).cloned();
            let gross = Rat::from_dec(d.gross_proceeds);
            let net = Rat::from_dec(d.proceeds);
            let Some(gl) = find("Gross Proceeds:") else { return Err(format!("text: disposal {} {} lacks Gross Proceeds", d.ticker, d.date)) };
            let toks = money_tokens(gl);
            if toks.len() != 2 {
                return Err(format!("text: Gross Proceeds line has {} money figures: {gl}", toks.len()));
            }
            if !d.quantity.is_zero() {
                let unit = &gross / Rat::from_dec(d.quantity);
                let (shown, _) = parse_gbp(&toks[0]).ok_or_else(|| format!("text: unit price '{}'", toks[0]))?;
                if !quotient_ok(&shown, d.gross_proceeds, d.quantity) {
                    return Err(format!("text: disposal {} {}: unit price shown {}, computed {unit}", d.ticker, d.date, toks[0]));
                }
            }
            let (shown, well) = parse_gbp(&toks[1]).ok_or_else(|| format!("text: gross '{}'", toks[1]))?;
            if !well || !money_ok(&shown, &gross) {
                return Err(format!("text: disposal {} {}: gross proceeds shown {}, computed {gross} (pence: {})", d.ticker, d.date, toks[1], gbp(&gross)));
            }
            if !gl.contains(&format!(" {} ×", trimmed(d.quantity))) {
                return Err(format!("text: Gross Proceeds line does not show quantity {}: {gl}", trimmed(d.quantity)));
            }
            let fees = &gross - &net;
            match find("Net Proceeds:") {
                Some(nl) => {
                    let toks = money_tokens(nl);
                    let exp = [gross.clone(), fees.clone(), net.clone()];
                    if toks.len() != 3 {
                        return Err(format!("text: Net Proceeds line has {} figures: {nl}", toks.len()));
                    }
                    for (t, v) in toks.iter().zip(exp.iter()) {
                        let (shown, well) = parse_gbp(t).ok_or_else(|| format!("text: figure '{t}'"))?;
                        if !well || !money_ok(&shown, v) {
                            return Err(format!("text: disposal {} {}: Net Proceeds line shows {t}, computed {v} (pence: {})", d.ticker, d.date, gbp(v)));
                        }
                    }
                }
                None => {
                    if fees.is_pos() && fees.round_half_away_scaled(2) != num_bigint::BigInt::from(0) {
                        return Err(format!("text: disposal {} {} has sale fees {fees} but no Net Proceeds line", d.ticker, d.date));
                    }
                }
            }
            for (prefix, v) in [("Cost:", Rat::from_dec(d.total_allowable_cost())), ("Result:", gain.clone())] {
                let Some(l) = find(prefix) else { return Err(format!("text: disposal {} {} lacks {prefix}", d.ticker, d.date)) };
                let toks = money_tokens(l);
                if toks.len() != 1 {
                    return Err(format!("text: {prefix} line: {l}"));
                }
                let (shown, well) = parse_gbp(&toks[0]).ok_or_else(|| format!("text: figure '{}'", toks[0]))?;
                if !well || !money_ok(&shown, &v) {
                    return Err(format!("text: disposal {} {}: {prefix} shows {}, computed {v} (pence: {})", d.ticker, d.date, toks[0], gbp(&v)));
                }
            }
        }
    }
    // holdings
    let hold_lines: Vec<&str> = lines[i_hold + 1..i_tx].iter().filter(|l| !l.trim().is_empty()).cloned().collect();
    let active: Vec<_> = r.holdings.iter().filter(|h| h.quantity > Decimal::ZERO).collect();
    if active.is_empty() {
        if hold_lines != vec!["NONE"] {
            return Err(format!("text: holdings section {:?} but no active holding", hold_lines));
        }
    } else {
        if hold_lines.len() != active.len() {
            return Err(format!("text: {} holding lines, {} active holdings", hold_lines.len(), active.len()));
        }
        for (l, h) in hold_lines.iter().zip(active.iter()) {
            let want = format!("{}: {} units at ", h.ticker, trimmed(h.quantity));
            if !l.starts_with(&want) {
                return Err(format!("text: holding line '{l}', expected to start '{want}'"));
            }
            let fig = l[want.len()..].split(' ').next().unwrap_or("");
            let avg = Rat::from_dec(h.total_cost) / Rat::from_dec(h.quantity);
            let (shown, _) = parse_gbp(fig).ok_or_else(|| format!("text: holding figure '{fig}'"))?;
            if !quotient_ok(&shown, h.total_cost, h.quantity) {
                return Err(format!("text: holding {} average cost shown {fig}, computed {avg}", h.ticker));
            }
        }
    }
    // transactions echo (BUY/SELL): same lines, date then ticker order
    let mut trades: Vec<&cgt_core::Transaction> = r.transactions.iter().filter(|t| matches!(t.operation, cgt_core::Operation::Buy { .. } | cgt_core::Operation::Sell { .. })).collect();
    trades.sort_by(|a, b| a.date.cmp(&b.date).then(a.ticker.cmp(&b.ticker)));
    let end = sec("# ASSET EVENTS").unwrap_or(lines.len());
    let tx_lines: Vec<&str> = lines[i_tx + 1..end].iter().filter(|l| !l.trim().is_empty()).cloned().collect();
    if tx_lines.len() != trades.len() {
        return Err(format!("text: {} transaction lines, {} BUY/SELL transactions", tx_lines.len(), trades.len()));
    }
    for (l, t) in tx_lines.iter().zip(trades.iter()) {
        let (kind, amount, price, fees) = match &t.operation {
            cgt_core::Operation::Buy { amount, price, fees } => ("BUY", amount, price, fees),
            cgt_core::Operation::Sell { amount, price, fees } => ("SELL", amount, price, fees),
            _ => unreachable!(),
        };
        let want = format!("{} {kind} {} {} @ ", uk_date(t.date), trimmed(*amount), t.ticker);
        if !l.starts_with(&want) {
            return Err(format!("text: transaction line '{l}', expected to start '{want}'"));
        }
        // price and fees echoed in full with their currency symbol
        let rest = &l[want.len()..];
        // in full (trailing zeros or not), or rounded to pence half away from zero
        let forms = |d: Decimal| -> Vec<String> {
            let mut v = vec![trimmed(d), d.to_string(), Rat::from_dec(d).to_fixed(2)];
            v.dedup();
            v
        };
        let p_ok = forms(price.amount).iter().any(|p| rest.contains(p.as_str()));
        let f_ok = forms(fees.amount).iter().any(|f| rest.contains(&format!("{f} fees")));
        if !p_ok || !f_ok {
            return Err(format!("text: transaction line '{l}' does not echo price {} and fees {} (in full or to pence)", trimmed(price.amount), trimmed(fees.amount)));
        }
    }
    // asset events echo (DIVIDEND/ACCUMULATION/CAPRETURN/SPLIT/UNSPLIT): same lines, date then
    // ticker order; lines of one (date, ticker) may come in any order among themselves
    let mut events: Vec<&cgt_core::Transaction> = r.transactions.iter().filter(|t| !matches!(t.operation, cgt_core::Operation::Buy { .. } | cgt_core::Operation::Sell { .. })).collect();
    events.sort_by(|a, b| a.date.cmp(&b.date).then(a.ticker.cmp(&b.ticker)));
    let ev_lines: Vec<&str> = match sec("# ASSET EVENTS") {
        Some(i) => lines[i + 1..].iter().filter(|l| !l.trim().is_empty()).cloned().collect(),
        None => vec![],
    };
    if ev_lines.len() != events.len() {
        return Err(format!("text: {} asset-event lines, {} asset events in the ledger", ev_lines.len(), events.len()));
    }
    let mut i = 0;
    while i < events.len() {
        let mut j = i;
        while j < events.len() && events[j].date == events[i].date && events[j].ticker == events[i].ticker {
            j += 1;
        }
        let mut group: Vec<&str> = ev_lines[i..j].to_vec();
        for t in &events[i..j] {
            let (prefix, total): (String, Option<&cgt_money::CurrencyAmount>) = match &t.operation {
                cgt_core::Operation::Dividend { total_value, .. } => (format!("{} DIVIDEND {} ", uk_date(t.date), t.ticker), Some(total_value)),
                cgt_core::Operation::Accumulation { amount, total_value, .. } => (format!("{} ACCUMULATION {} {} ", uk_date(t.date), t.ticker, trimmed(*amount)), Some(total_value)),
                cgt_core::Operation::CapReturn { amount, total_value, .. } => (format!("{} CAPRETURN {} {} ", uk_date(t.date), t.ticker, trimmed(*amount)), Some(total_value)),
                cgt_core::Operation::Split { ratio } => (format!("{} SPLIT {} {}", uk_date(t.date), t.ticker, trimmed(*ratio)), None),
                cgt_core::Operation::Unsplit { ratio } => (format!("{} UNSPLIT {} {}", uk_date(t.date), t.ticker, trimmed(*ratio)), None),
                _ => unreachable!(),
            };
            let pos = group.iter().position(|l| match total {
                None => l.trim_end() == prefix,
                Some(tv) => {
                    l.starts_with(&prefix) && {
                        let fig = l[prefix.len()..].trim();
                        if tv.is_gbp() {
                            matches!(parse_gbp(fig), Some((shown, true)) if money_ok(&shown, &Rat::from_dec(tv.amount)))
                        } else {
                            fig.ends_with(tv.code())
                        }
                    }
                }
            });
            match pos {
                Some(k) => {
                    group.remove(k);
                }
                None => {
                    return Err(format!(
                        "text: asset events not listed by date then ticker, or a figure differs: expected a line '{prefix}…' among lines {}..{} of the section, found {:?}",
                        i + 1,
                        j,
                        &ev_lines[i..j]
                    ))
                }
            }
        }
        i = j;
    }
    Ok(())
}

// ---------- JSON ----------

fn json_money(v: &Value, computed: &Rat, what: &str) -> Result<(), String> {
    let s = v.as_str().ok_or_else(|| format!("json: {what} is not a string: {v}"))?;
    let shown = Rat::from_str_dec(s).ok_or_else(|| format!("json: {what} '{s}' is not a decimal"))?;
    if !money_ok(&shown, computed) {
        return Err(format!("json: {what} shown \"{s}\" but computed {computed} (pence, half away from zero: {})", computed.to_fixed(2)));
    }
    Ok(())
}
fn json_exact(v: &Value, computed: Decimal, what: &str) -> Result<(), String> {
    let s = v.as_str().ok_or_else(|| format!("json: {what} is not a string: {v}"))?;
    let shown: Decimal = s.parse().map_err(|_| format!("json: {what} '{s}'"))?;
    if shown != computed {
        return Err(format!("json: {what} shown {s}, computed {computed}"));
    }
    Ok(())
}

pub fn check_json(r: &TaxReport, j: &Value) -> Result<(), String> {
    let years = j.get("tax_years").and_then(|x| x.as_array()).ok_or("json: no tax_years")?;
    if years.len() != r.tax_years.len() {
        return Err(format!("json: {} tax years, computed {}", years.len(), r.tax_years.len()));
    }
    for (jy, y) in years.iter().zip(r.tax_years.iter()) {
        let label = tax_year_label(y.period.start_year());
        if jy.get("period").and_then(|p| p.as_str()) != Some(label.as_str()) {
            return Err(format!("json: period {:?}, expected {label}", jy.get("period")));
        }
        if jy.get("disposal_count").and_then(|c| c.as_u64()) != Some(y.disposals.len() as u64) {
            return Err(format!("json: {label} disposal_count {:?}", jy.get("disposal_count")));
        }
        for (k, v) in [("total_gain", y.total_gain), ("total_loss", y.total_loss), ("net_gain", y.net_gain), ("exempt_amount", y.exempt_amount), ("dividend_income", y.dividend_income), ("dividend_tax_paid", y.dividend_tax_paid)] {
            json_money(jy.get(k).unwrap_or(&Value::Null), &Rat::from_dec(v), &format!("{label} {k}"))?;
        }
        let jd = jy.get("disposals").and_then(|x| x.as_array()).ok_or("json: no disposals")?;
        if jd.len() != y.disposals.len() {
            return Err(format!("json: {label} has {} disposals, computed {}", jd.len(), y.disposals.len()));
        }
        for (jx, d) in jd.iter().zip(y.disposals.iter()) {
            let id = format!("{} {}", d.ticker, d.date);
            if jx.get("date").and_then(|x| x.as_str()) != Some(d.date.to_string().as_str()) || jx.get("ticker").and_then(|x| x.as_str()) != Some(d.ticker.as_str()) {
                return Err(format!("json: disposal {:?} {:?}, expected {id}", jx.get("ticker"), jx.get("date")));
            }
            json_exact(jx.get("quantity").unwrap_or(&Value::Null), d.quantity, &format!("{id} quantity"))?;
            json_money(jx.get("gross_proceeds").unwrap_or(&Value::Null), &Rat::from_dec(d.gross_proceeds), &format!("{id} gross_proceeds"))?;
            json_money(jx.get("proceeds").unwrap_or(&Value::Null), &Rat::from_dec(d.proceeds), &format!("{id} proceeds"))?;
            let jm = jx.get("matches").and_then(|x| x.as_array()).ok_or("json: no matches")?;
            if jm.len() != d.matches.len() {
                return Err(format!("json: {id} has {} legs, computed {}", jm.len(), d.matches.len()));
            }
            for (jl, m) in jm.iter().zip(d.matches.iter()) {
                let rule = match m.rule {
                    MatchRule::SameDay => "SameDay",
                    MatchRule::BedAndBreakfast => "BedAndBreakfast",
                    MatchRule::Section104 => "Section104",
                };
                if jl.get("rule").and_then(|x| x.as_str()) != Some(rule) {
                    return Err(format!("json: {id} leg rule {:?}, computed {rule}", jl.get("rule")));
                }
                json_exact(jl.get("quantity").unwrap_or(&Value::Null), m.quantity, &format!("{id} leg quantity"))?;
                json_money(jl.get("allowable_cost").unwrap_or(&Value::Null), &Rat::from_dec(m.allowable_cost), &format!("{id} leg allowable_cost"))?;
                json_money(jl.get("gain_or_loss").unwrap_or(&Value::Null), &Rat::from_dec(m.gain_or_loss), &format!("{id} leg gain_or_loss"))?;
                let jdate = jl.get("acquisition_date").and_then(|x| x.as_str()).map(String::from);
                if jdate != m.acquisition_date.map(|d| d.to_string()) {
                    return Err(format!("json: {id} leg acquisition_date {jdate:?}, computed {:?}", m.acquisition_date));
                }
            }
        }
    }
    let jh = j.get("holdings").and_then(|x| x.as_array()).ok_or("json: no holdings")?;
    if jh.len() != r.holdings.len() {
        return Err(format!("json: {} holdings, computed {}", jh.len(), r.holdings.len()));
    }
    for (jx, h) in jh.iter().zip(r.holdings.iter()) {
        if jx.get("ticker").and_then(|x| x.as_str()) != Some(h.ticker.as_str()) {
            return Err(format!("json: holding {:?}, expected {}", jx.get("ticker"), h.ticker));
        }
        json_exact(jx.get("quantity").unwrap_or(&Value::Null), h.quantity, &format!("holding {} quantity", h.ticker))?;
        json_money(jx.get("total_cost").unwrap_or(&Value::Null), &Rat::from_dec(h.total_cost), &format!("holding {} total_cost", h.ticker))?;
    }
    if let Some(jt) = j.get("transactions") {
        let back: Vec<cgt_core::Transaction> = serde_json::from_value(jt.clone()).map_err(|e| format!("json: echoed transactions unreadable: {e}"))?;
        if back != r.transactions {
            return Err("json: echoed transactions differ from the input".into());
        }
    }
    Ok(())
}

// ---------- PDF ----------

/// Typst's float pipeline for fmt-money, reproduced for attribution of finding F8 only.
fn typst_money(value: f64) -> String {
    let abs = value.abs();
    let rounded = if abs.abs() >= (1u64 << 53) as f64 { abs } else { (abs * 100.0).round() / 100.0 };
    let text = format!("{rounded}");
    let (ip, fp) = text.split_once('.').unwrap_or((&text, ""));
    let mut frac = fp.to_string();
    while frac.len() < 2 {
        frac.push('0');
    }
    frac.truncate(2);
    format!("{}£{}.{}", if value < 0.0 { "\u{2212}" } else { "" }, group(ip), frac)
}
fn typst_qty(value: f64) -> String {
    let rounded = (value * 1_000_000.0).round() / 1_000_000.0;
    let text = format!("{rounded}");
    let (ip, fp) = text.split_once('.').unwrap_or((&text, ""));
    let mut frac = fp.to_string();
    frac.truncate(6);
    let frac = frac.trim_end_matches('0');
    if frac.is_empty() { ip.to_string() } else { format!("{ip}.{frac}") }
}

/// expected quantity text in the PDF: six decimals, half away from zero, zeros trimmed
fn pdf_qty(d: Decimal) -> String {
    let s = Rat::from_dec(d).to_fixed(6);
    s.trim_end_matches('0').trim_end_matches('.').to_string()
}

pub struct PdfOutcome {
    pub float_rounding: Vec<String>,
}

/// One expected figure: the exact value and the f64 the template receives / computes.
struct Fig {
    what: String,
    exact: Rat,
    float: f64,
}

fn fig(what: String, exact: Rat, float: f64) -> Fig {
    Fig { what, exact, float }
}

fn check_pdf_money(tok: &str, f: &Fig, out: &mut PdfOutcome) -> Result<(), String> {
    let Some((shown, well)) = parse_gbp(tok) else { return Err(format!("pdf: {} shows '{tok}', not a GBP figure", f.what)) };
    if !well {
        return Err(format!("pdf: {} shows '{tok}': not '£' with thousands separators and two decimals", f.what));
    }
    if money_ok(&shown, &f.exact) {
        return Ok(());
    }
    if typst_money(f.float) == tok.replace('-', "\u{2212}") {
        out.float_rounding.push(format!("{} shows {tok}, exact value {} rounds half away from zero to {}", f.what, f.exact, gbp(&f.exact)));
        return Ok(());
    }
    Err(format!("pdf: {} shows {tok} but the computed value is {} (pence: {})", f.what, f.exact, gbp(&f.exact)))
}

/// A transaction-table / event-table amount in its own currency: GBP as '£', any other currency
/// as "<CODE> <grouped integer>.<two decimals>" (the template's fmt-currency).
fn check_pdf_cur(tok: &str, a: &cgt_money::CurrencyAmount, what: &str, out: &mut PdfOutcome) -> Result<(), String> {
    let exact = Rat::from_dec(a.amount);
    let float = a.amount.to_f64().unwrap_or(f64::NAN);
    if a.is_gbp() {
        return check_pdf_money(tok, &fig(what.to_string(), exact, float), out);
    }
    let code = a.code();
    let Some(num) = tok.strip_prefix(code).and_then(|r| r.strip_prefix(' ')) else {
        return Err(format!("pdf: {what} shows '{tok}', expected an amount in {code} ({})", a.amount));
    };
    let Some((shown, well)) = parse_gbp(&format!("£{num}")) else { return Err(format!("pdf: {what} shows '{tok}', not a figure")) };
    if !well {
        return Err(format!("pdf: {what} shows '{tok}': not thousands separators and two decimals"));
    }
    if money_ok(&shown, &exact) {
        return Ok(());
    }
    if typst_money(float).replace('£', &format!("{code} ")) == tok {
        out.float_rounding.push(format!("{what} shows {tok}, exact value {exact} rounds half away from zero to {}", exact.to_fixed(2)));
        return Ok(());
    }
    Err(format!("pdf: {what} shows {tok} but the amount is {} {code}", a.amount))
}

fn check_pdf_qty(tok: &str, d: Decimal, what: &str, out: &mut PdfOutcome) -> Result<(), String> {
    if tok == pdf_qty(d) {
        return Ok(());
    }
    if let Some(f) = d.to_f64() {
        if typst_qty(f) == tok {
            out.float_rounding.push(format!("{what} shows quantity {tok}, exact {d} is {} to six places", pdf_qty(d)));
            return Ok(());
        }
    }
    Err(format!("pdf: {what} shows quantity '{tok}', computed {d} (six places: {})", pdf_qty(d)))
}

pub fn check_pdf(r: &TaxReport, runs: &[cgt_formatter_pdf::VerifTextRun]) -> Result<PdfOutcome, String> {
    let mut out = PdfOutcome { float_rounding: vec![] };
    // a negative figure is laid out as two runs ("\u{2212}" then "£1.00"): join them again
    let raw: Vec<&str> = runs.iter().map(|x| x.text.as_str()).filter(|t| !t.trim().is_empty() && !(t.starts_with("Page ") && t[5..].chars().all(|c| c.is_ascii_digit()))).collect();
    let mut joined: Vec<String> = vec![];
    let mut k = 0;
    while k < raw.len() {
        if (raw[k] == "\u{2212}" || raw[k] == "-") && k + 1 < raw.len() && raw[k + 1].starts_with('£') {
            joined.push(format!("{}{}", raw[k], raw[k + 1]));
            k += 2;
        } else if raw[k].ends_with(" \u{2212}") && k + 1 < raw.len() && raw[k + 1].starts_with('£') {
            joined.push(format!("{}{}", raw[k], raw[k + 1]));
            k += 2;
        } else {
            joined.push(raw[k].to_string());
            k += 1;
        }
    }
    let texts: Vec<&str> = joined.iter().map(|s| s.as_str()).collect();
    let mut pos = 0usize;
    let f = |d: Decimal| d.to_f64().unwrap_or(f64::NAN);
    let mut seek = |pos: &mut usize, want: &dyn Fn(&str) -> bool, what: &str| -> Result<usize, String> {
        match texts[*pos..].iter().position(|t| want(t)) {
            Some(p) => {
                let at = *pos + p;
                *pos = at + 1;
                Ok(at)
            }
            None => Err(format!("pdf: cannot find {what} after run {}", *pos)),
        }
    };
    // summary table
    seek(&mut pos, &|t| t == "Taxable gain", "summary header")?;
    for y in &r.tax_years {
        let label = tax_year_label(y.period.start_year());
        let at = seek(&mut pos, &|t| t == label, &format!("summary row {label}"))?;
        let cells = texts.get(at + 1..at + 8).ok_or("pdf: summary row truncated")?;
        if cells[0] != y.disposal_count().to_string() {
            return Err(format!("pdf: {label} disposals shown {}, computed {}", cells[0], y.disposal_count()));
        }
        let taxable = (y.net_gain - y.exempt_amount).max(Decimal::ZERO);
        let figs = [
            fig(format!("{label} net gain"), Rat::from_dec(y.net_gain), f(y.net_gain)),
            fig(format!("{label} total gain"), Rat::from_dec(y.total_gain), f(y.total_gain)),
            fig(format!("{label} total loss"), Rat::from_dec(y.total_loss), f(y.total_loss)),
            fig(format!("{label} proceeds"), Rat::from_dec(y.gross_proceeds()), f(y.gross_proceeds())),
            fig(format!("{label} exemption"), Rat::from_dec(y.exempt_amount), f(y.exempt_amount)),
            fig(format!("{label} taxable gain"), Rat::from_dec(taxable), f(taxable)),
        ];
        for (c, fg) in cells[1..7].iter().zip(figs.iter()) {
            check_pdf_money(c, fg, &mut out)?;
        }
        pos = at + 8;
    }
    // disposal details
    seek(&mut pos, &|t| t == "Disposal Details", "details heading")?;
    for y in &r.tax_years {
        let label = format!("Tax Year {}", tax_year_label(y.period.start_year()));
        seek(&mut pos, &|t| t == label, &label)?;
        for (i, d) in y.disposals.iter().enumerate() {
            let id = format!("{} {}", d.ticker, d.date);
            let head = format!("{}. {}", i + 1, d.ticker);
            seek(&mut pos, &|t| t == head, &format!("disposal header '{head}'"))?;
            let at = seek(&mut pos, &|t| t.ends_with(" shares") && !t.contains(':'), &format!("{id} share count"))?;
            check_pdf_qty(texts[at].trim_end_matches(" shares"), d.quantity, &id, &mut out)?;
            let sold = format!("Sold {}", uk_date(d.date));
            seek(&mut pos, &|t| t == sold, &format!("'{sold}'"))?;
            let gain = d.net_gain_or_loss();
            let at = seek(&mut pos, &|t| t.starts_with("GAIN ") || t.starts_with("LOSS "), &format!("{id} result badge"))?;
            let (kind, tok) = texts[at].split_once(' ').unwrap_or(("", ""));
            if kind != if gain < Decimal::ZERO { "LOSS" } else { "GAIN" } {
                return Err(format!("pdf: {id} labelled {kind}, computed result {gain}"));
            }
            check_pdf_money(tok, &fig(format!("{id} |result|"), Rat::from_dec(gain.abs()), f(gain).abs()), &mut out)?;
            // legs
            for m in &d.matches {
                let at = seek(&mut pos, &|t| t.starts_with("Same Day: ") || t.starts_with("B&B: ") || t.starts_with("Section 104: "), &format!("{id} leg"))?;
                let t = texts[at];
                match m.rule {
                    MatchRule::SameDay => {
                        let q = t.strip_prefix("Same Day: ").and_then(|x| x.strip_suffix(" shares")).ok_or_else(|| format!("pdf: {id} leg '{t}', computed Same Day"))?;
                        check_pdf_qty(q, m.quantity, &format!("{id} same-day leg"), &mut out)?;
                    }
                    MatchRule::BedAndBreakfast => {
                        let rest = t.strip_prefix("B&B: ").ok_or_else(|| format!("pdf: {id} leg '{t}', computed B&B"))?;
                        let (q, date) = rest.split_once(" shares from ").ok_or_else(|| format!("pdf: {id} leg '{t}'"))?;
                        check_pdf_qty(q, m.quantity, &format!("{id} 30-day leg"), &mut out)?;
                        if Some(date.to_string()) != m.acquisition_date.map(uk_date) {
                            return Err(format!("pdf: {id} 30-day leg dated {date}, computed {:?}", m.acquisition_date));
                        }
                    }
                    MatchRule::Section104 => {
                        let rest = t.strip_prefix("Section 104: ").ok_or_else(|| format!("pdf: {id} leg '{t}', computed Section 104"))?;
                        let (q, unit) = rest.split_once(" shares @ ").ok_or_else(|| format!("pdf: {id} leg '{t}'"))?;
                        check_pdf_qty(q, m.quantity, &format!("{id} pool leg"), &mut out)?;
                        if !m.quantity.is_zero() {
                            let exact = Rat::from_dec(m.allowable_cost) / Rat::from_dec(m.quantity);
                            check_pdf_money(unit, &fig(format!("{id} pool unit cost"), exact, f(m.allowable_cost) / f(m.quantity)), &mut out)?;
                        }
                    }
                }
            }
            seek(&mut pos, &|t| t == "Gross Proceeds:", &format!("{id} Gross Proceeds"))?;
            // the line may wrap: take every run up to the next label
            let mut line = String::new();
            while pos < texts.len() && texts[pos] != "Net Proceeds:" && texts[pos] != "Cost:" {
                if !line.is_empty() {
                    line.push(' ');
                }
                line.push_str(texts[pos]);
                pos += 1;
            }
            let parts: Vec<&str> = line.split(' ').filter(|p| !p.is_empty()).collect();
            // "<qty> × <unit> = <gross>"
            if parts.len() != 5 || parts[1] != "\u{d7}" || parts[3] != "=" {
                return Err(format!("pdf: {id} gross proceeds line '{line}'"));
            }
            check_pdf_qty(parts[0], d.quantity, &format!("{id} gross line"), &mut out)?;
            if !d.quantity.is_zero() {
                check_pdf_money(parts[2], &fig(format!("{id} unit price"), Rat::from_dec(d.gross_proceeds) / Rat::from_dec(d.quantity), f(d.gross_proceeds) / f(d.quantity)), &mut out)?;
            }
            check_pdf_money(parts[4], &fig(format!("{id} gross proceeds"), Rat::from_dec(d.gross_proceeds), f(d.gross_proceeds)), &mut out)?;
            let fees_f = f(d.gross_proceeds) - f(d.proceeds);
            let fees = Rat::from_dec(d.gross_proceeds) - Rat::from_dec(d.proceeds);
            if texts.get(pos).copied() == Some("Net Proceeds:") {
                pos += 1;
                let mut line = String::new();
                while pos < texts.len() && texts[pos] != "Cost:" {
                    if !line.is_empty() {
                        line.push(' ');
                    }
                    line.push_str(texts[pos]);
                    pos += 1;
                }
                let parts: Vec<&str> = line.split(' ').filter(|p| !p.is_empty()).collect();
                if parts.len() != 5 || parts[1] != "\u{2212}" || parts[3] != "=" {
                    return Err(format!("pdf: {id} net proceeds line '{line}'"));
                }
                check_pdf_money(parts[0], &fig(format!("{id} gross proceeds"), Rat::from_dec(d.gross_proceeds), f(d.gross_proceeds)), &mut out)?;
                check_pdf_money(parts[2], &fig(format!("{id} sale fees"), fees.clone(), fees_f), &mut out)?;
                check_pdf_money(parts[4], &fig(format!("{id} net proceeds"), Rat::from_dec(d.proceeds), f(d.proceeds)), &mut out)?;
            } else if fees.round_half_away_scaled(2) != num_bigint::BigInt::from(0) && fees.is_pos() && fees_f > 0.0 {
                return Err(format!("pdf: {id} has sale fees {fees} but no Net Proceeds line"));
            }
            seek(&mut pos, &|t| t == "Cost:", &format!("{id} Cost"))?;
            let cost = d.total_allowable_cost();
            check_pdf_money(texts.get(pos).copied().unwrap_or(""), &fig(format!("{id} cost"), Rat::from_dec(cost), f(cost)), &mut out)?;
            pos += 1;
            seek(&mut pos, &|t| t == "Result:", &format!("{id} Result"))?;
            check_pdf_money(texts.get(pos).copied().unwrap_or(""), &fig(format!("{id} result"), Rat::from_dec(gain), f(gain)), &mut out)?;
            pos += 1;
        }
    }
    // holdings
    seek(&mut pos, &|t| t == "Holdings", "holdings heading")?;
    let active: Vec<_> = r.holdings.iter().filter(|h| h.quantity > Decimal::ZERO).collect();
    if active.is_empty() {
        seek(&mut pos, &|t| t == "No remaining holdings.", "'No remaining holdings.'")?;
    } else {
        seek(&mut pos, &|t| t == "Avg Cost", "holdings header")?;
        for h in &active {
            let at = seek(&mut pos, &|t| t == h.ticker, &format!("holding row {}", h.ticker))?;
            let q = texts.get(at + 1).copied().unwrap_or("");
            let c = texts.get(at + 2).copied().unwrap_or("");
            check_pdf_qty(q, h.quantity, &format!("holding {}", h.ticker), &mut out)?;
            check_pdf_money(c, &fig(format!("holding {} average cost", h.ticker), Rat::from_dec(h.total_cost) / Rat::from_dec(h.quantity), f(h.total_cost) / f(h.quantity)), &mut out)?;
            pos = at + 3;
        }
    }
    // transactions: same rows in date/ticker order
    seek(&mut pos, &|t| t == "Transactions", "transactions heading")?;
    let mut trades: Vec<&cgt_core::Transaction> = r.transactions.iter().filter(|t| matches!(t.operation, cgt_core::Operation::Buy { .. } | cgt_core::Operation::Sell { .. })).collect();
    trades.sort_by(|a, b| a.date.cmp(&b.date).then(a.ticker.cmp(&b.ticker)));
    if trades.is_empty() {
        seek(&mut pos, &|t| t == "No transactions.", "'No transactions.'")?;
    } else {
        seek(&mut pos, &|t| t == "Fees", "transactions header")?;
        for t in trades {
            let (kind, amount, price, fees) = match &t.operation {
                cgt_core::Operation::Buy { amount, price, fees } => ("BUY", *amount, price, fees),
                cgt_core::Operation::Sell { amount, price, fees } => ("SELL", *amount, price, fees),
                _ => unreachable!(),
            };
            let date = uk_date(t.date);
            let at = seek(&mut pos, &|x| x == date, &format!("transaction row {date}"))?;
            if texts.get(at + 1).copied() != Some(kind) || texts.get(at + 2).copied() != Some(t.ticker.as_str()) {
                return Err(format!("pdf: transaction row {date}: {:?} {:?}, expected {kind} {}", texts.get(at + 1), texts.get(at + 2), t.ticker));
            }
            check_pdf_qty(texts.get(at + 3).copied().unwrap_or(""), amount, &format!("transaction {date} {}", t.ticker), &mut out)?;
            check_pdf_cur(texts.get(at + 4).copied().unwrap_or(""), price, &format!("transaction {date} {kind} {} price", t.ticker), &mut out)?;
            check_pdf_cur(texts.get(at + 5).copied().unwrap_or(""), fees, &format!("transaction {date} {kind} {} fees", t.ticker), &mut out)?;
            pos = at + 6;
        }
    }
    // asset events: one row (date, type, ticker, amount, value) per DIVIDEND / ACCUMULATION /
    // CAPRETURN / SPLIT / UNSPLIT line, by date then ticker (rows of one date and ticker in any order)
    let mut events: Vec<&cgt_core::Transaction> = r.transactions.iter().filter(|t| !matches!(t.operation, cgt_core::Operation::Buy { .. } | cgt_core::Operation::Sell { .. })).collect();
    events.sort_by(|a, b| a.date.cmp(&b.date).then(a.ticker.cmp(&b.ticker)));
    if !events.is_empty() {
        seek(&mut pos, &|t| t == "Asset Events", "asset events heading")?;
        let start = seek(&mut pos, &|t| t == "Value", "asset events header")? + 1;
        // a dividend row's amount cell "-" followed by "£…" was joined above like a negative
        // figure (values in this table are never negative): take such tokens apart again
        let mut cells: Vec<&str> = vec![];
        let region = &texts[start.min(texts.len())..];
        let mut skip = 0;
        for (k, t) in region.iter().enumerate() {
            // the table header is repeated when the table continues on the next page
            if skip > 0 {
                skip -= 1;
                continue;
            }
            if region[k..].starts_with(&["Date", "Type", "Ticker", "Amount", "Value"]) {
                skip = 4;
                continue;
            }
            match t.strip_prefix('-') {
                Some(rest) if rest.starts_with('£') => {
                    cells.push("-");
                    cells.push(rest);
                }
                _ => cells.push(t),
            }
        }
        let rows: Vec<&[&str]> = (0..events.len()).filter_map(|k| cells.get(5 * k..5 * k + 5)).collect();
        if rows.len() != events.len() {
            return Err(format!("pdf: {} asset-event rows found, {} asset events in the ledger", rows.len(), events.len()));
        }
        let mut i = 0;
        while i < events.len() {
            let mut j = i;
            while j < events.len() && events[j].date == events[i].date && events[j].ticker == events[i].ticker {
                j += 1;
            }
            let mut group: Vec<&[&str]> = rows[i..j].to_vec();
            for t in &events[i..j] {
                let date = uk_date(t.date);
                let (kind, qty, value): (&str, Option<Decimal>, Option<&cgt_money::CurrencyAmount>) = match &t.operation {
                    cgt_core::Operation::Dividend { total_value, .. } => ("DIVIDEND", None, Some(total_value)),
                    cgt_core::Operation::Accumulation { amount, total_value, .. } => ("ACCUMULATION", Some(*amount), Some(total_value)),
                    cgt_core::Operation::CapReturn { amount, total_value, .. } => ("CAPRETURN", Some(*amount), Some(total_value)),
                    cgt_core::Operation::Split { ratio } => ("SPLIT", Some(*ratio), None),
                    cgt_core::Operation::Unsplit { ratio } => ("UNSPLIT", Some(*ratio), None),
                    _ => unreachable!(),
                };
                let mut problem = String::new();
                let found = group.iter().position(|row| {
                    if row[0] != date || row[1] != kind || row[2] != t.ticker {
                        return false;
                    }
                    let mut scratch = PdfOutcome { float_rounding: vec![] };
                    let q_ok = match qty {
                        None => row[3] == "-",
                        Some(q) => check_pdf_qty(row[3], q, "event", &mut scratch).is_ok(),
                    };
                    let v_ok = match value {
                        None => row[4] == "-",
                        Some(v) => match check_pdf_cur(row[4], v, &format!("asset event {date} {kind} {} value", t.ticker), &mut scratch) {
                            Ok(()) => true,
                            Err(e) => {
                                problem = e;
                                false
                            }
                        },
                    };
                    if q_ok && v_ok {
                        out.float_rounding.extend(scratch.float_rounding);
                    }
                    q_ok && v_ok
                });
                match found {
                    Some(k) => {
                        group.remove(k);
                    }
                    None => {
                        return Err(format!(
                            "pdf: asset events not listed by date then ticker, or a cell differs: no row for {date} {kind} {} (amount {:?}, value {:?}) among rows {}..{}: {:?} {problem}",
                            t.ticker,
                            qty,
                            value.map(|v| format!("{} {}", v.amount, v.code())),
                            i + 1,
                            j,
                            &rows[i..j]
                        ))
                    }
                }
            }
            i = j;
        }
    }
    Ok(out)
}

// ---------- generators ----------

#[derive(Clone, Debug, Serialize, Deserialize)]
pub struct Case {
    pub gl: GenLedger,
    /// 0 as generated; 1 snapped to eighths (half-penny midpoints); 2 large (x1000 quantities)
    pub mode: u8,
    /// per money field (in ledger order): 0..=9 GBP, otherwise one of ten foreign currencies;
    /// empty = all GBP
    #[serde(default)]
    pub cur: Vec<u8>,
}

fn snap(l: &[Tx], mode: u8) -> Vec<Tx> {
    let eighth = Decimal::new(125, 3);
    let mut out = l.to_vec();
    for t in out.iter_mut() {
        match &mut t.op {
            Op::Buy { q, p, f } | Op::Sell { q, p, f } => match mode {
                1 => {
                    p.a = ((p.a / eighth).round() * eighth).max(eighth);
                    f.a = (f.a * Decimal::from(200)).round() / Decimal::from(200);
                    let _ = q;
                }
                2 => {
                    p.a = (p.a * Decimal::from(1000)).round_dp(2);
                }
                _ => {}
            },
            _ => {}
        }
    }
    out
}

const RULE: &str = "accepted ledgers (splits, dividends, 1-3 securities, embedded-table years) in three modes: as generated, prices snapped to eighths and fees to half-pence (results exactly on x.xx5 midpoints), prices x1000 (figures >= 1,000,000); each report rendered as text, JSON and (sampled) PDF text runs and every figure compared with the computed value; non-trivial = the report contains a figure exactly on a half-penny, or a negative result, or a figure >= 1,000,000; distinct by DSL hash";

fn strat(t: Tier) -> BoxedStrategy<Case> {
    let cfg = GenCfg::basic().secs(3).days(2, t.pick(12, 20)).splits(SplitMode::Terminating).dividends(true).years(2015, 2023);
    (lgen::ledger_strategy(cfg), prop_oneof![2 => Just(0u8), 3 => Just(1u8), 1 => Just(2u8)], prop_oneof![2 => Just(vec![]), 1 => proptest::collection::vec(0u8..20, 16)])
        .prop_map(|(gl, mode, cur)| Case { gl, mode, cur })
        .boxed()
}

/// foreign-currency echoes: every monetary field independently GBP or a foreign currency
fn with_currencies(l: Vec<Tx>, cur: &[u8]) -> Vec<Tx> {
    if cur.is_empty() {
        return l;
    }
    const CURS: [&str; 10] = ["USD", "EUR", "JPY", "CHF", "AUD", "CAD", "INR", "ZAR", "SEK", "HKD"];
    let mut l = l;
    let mut k = 0usize;
    for t in l.iter_mut() {
        for m in t.monies_mut() {
            let sel = cur[k % cur.len()];
            k += 1;
            if sel >= 10 {
                m.c = CURS[(sel as usize - 10) % CURS.len()].to_string();
            }
        }
    }
    l
}

/// ledgers around 2000 and 2100 (GBP only: no rates exist there): tax-year labels across a century
fn strat_century(t: Tier) -> BoxedStrategy<Case> {
    let mk = |lo, hi| lgen::ledger_strategy(GenCfg::basic().secs(2).days(2, t.pick(10, 16)).splits(SplitMode::Terminating).dividends(true).years(lo, hi));
    (prop_oneof![mk(1998, 2001), mk(2097, 2100), mk(1900, 1902)], prop_oneof![1 => Just(0u8), 1 => Just(1u8)]).prop_map(|(gl, mode)| Case { gl, mode, cur: vec![] }).boxed()
}

fn classify(r: &TaxReport, obs: &mut Obs) {
    let mut mid = false;
    let mut neg = false;
    let mut big = false;
    let million = Decimal::from(1_000_000);
    let mut see = |d: Decimal| {
        let scaled = d * Decimal::from(1000);
        if scaled.fract().is_zero() && (scaled.trunc() % Decimal::from(10)).abs() == Decimal::from(5) {
            mid = true;
        }
        if d < Decimal::ZERO {
            neg = true;
        }
        if d.abs() >= million {
            big = true;
        }
    };
    for y in &r.tax_years {
        see(y.net_gain);
        see(y.total_gain);
        see(y.total_loss);
        see(y.gross_proceeds());
        for d in &y.disposals {
            see(d.gross_proceeds);
            see(d.proceeds);
            see(d.net_gain_or_loss());
            see(d.total_allowable_cost());
            for m in &d.matches {
                see(m.allowable_cost);
                see(m.gain_or_loss);
            }
        }
    }
    for h in &r.holdings {
        see(h.total_cost);
    }
    obs.nontrivial = mid || neg || big;
    obs.class_if(mid, "figure_on_half_penny");
    obs.class_if(neg, "negative_result");
    obs.class_if(big, "figure>=1,000,000");
}

fn f8() -> Verdict {
    Verdict::Known {
        finding: "F8",
        what: "the PDF formats figures from binary floats: a value exactly on a half-penny (or on the 7th decimal of a quantity) can be shown rounded the other way than half-away-from-zero".into(),
    }
}

pub fn check_common(c: &Case, obs: &mut Obs, with_pdf: bool) -> Verdict {
    let ledger = with_currencies(snap(&c.gl.ledger, c.mode), &c.cur);
    if lgen::has_excluded_placement(&ledger) {
        obs.excluded += 1;
        return Verdict::Pass;
    }
    let dsl = crate::led::to_dsl(&ledger);
    obs.hash = crate::led::hash_str(&dsl);
    obs.class(&format!("mode_{}", c.mode));
    let foreign = ledger.iter().any(|t| t.monies().iter().any(|m| !m.is_gbp()));
    obs.class_if(foreign, "foreign_currency_echoes");
    // embedded exemption table where it covers the ledger's years, the all-years table otherwise
    // (stratum around the century boundaries: labels 1999/00, 2000/01, 2099/00)
    let embedded = cgt_core::Config::embedded().unwrap_or_default();
    let in_table = ledger.iter().filter(|t| matches!(t.op, Op::Sell { .. })).all(|t| embedded.exemptions.contains_key(&(crate::model::tax_year_of(t.date) as u16)));
    let cfg = if in_table { embedded } else { tool::all_years_config() };
    obs.class_if(!in_table, "years_outside_the_embedded_table");
    let r = match tool::calc_with(&ledger, None, if foreign { Some(crate::props::c15::fx()) } else { None }, &cfg) {
        Outcome::Ok(r) => r,
        Outcome::Err(_) => {
            obs.class("tool_rejected");
            return Verdict::Pass;
        }
        Outcome::Panic(p) => return Verdict::fail(format!("calculate panicked: {} at {}", p.msg, p.loc)),
    };
    classify(&r, obs);
    if obs.sample.is_none() && obs.nontrivial {
        obs.sample = Some(tool::sample_of(&ledger));
    }
    let text = match tool::guarded(|| cgt_formatter_plain::format(&r)) {
        Ok(t) => t,
        Err(p) => return Verdict::fail(format!("plain formatter panicked: {} at {}", p.msg, p.loc)),
    };
    if let Err(e) = check_text(&r, &text) {
        return Verdict::fail(format!("{e}\n--- ledger ---\n{dsl}"));
    }
    let j = match serde_json::to_value(&r) {
        Ok(j) => j,
        Err(e) => return Verdict::fail(format!("JSON serialisation failed: {e}")),
    };
    if let Err(e) = check_json(&r, &j) {
        return Verdict::fail(format!("{e}\n--- ledger ---\n{dsl}"));
    }
    if with_pdf {
        let runs = match tool::guarded(|| cgt_formatter_pdf::verif_text_runs(&r)) {
            Ok(Ok(runs)) => runs,
            Ok(Err(e)) => return Verdict::fail(format!("PDF compilation failed: {e}\n{dsl}")),
            Err(p) => return Verdict::fail(format!("PDF formatter panicked: {} at {}", p.msg, p.loc)),
        };
        match check_pdf(&r, &runs) {
            Err(e) => return Verdict::fail(format!("{e}\n--- ledger ---\n{dsl}")),
            Ok(o) => {
                if !o.float_rounding.is_empty() {
                    obs.class("pdf_float_rounding_deviation");
                    return f8();
                }
            }
        }
    }
    Verdict::Pass
}

pub fn check(c: &Case, obs: &mut Obs) -> Verdict {
    check_common(c, obs, false)
}
pub fn check_with_pdf(c: &Case, obs: &mut Obs) -> Verdict {
    check_common(c, obs, true)
}

fn run(ctx: &Ctx) {
    if !ctx.run_prop("text_and_json", RULE, ctx.cases(1500, 160_000), strat, check) {
        return;
    }
    if !ctx.run_prop("century_boundaries", "as text_and_json, ledgers dated 1998-2001, 2097-2100 and 1900-1902 (all-years exemption table): tax-year labels 1999/00, 2000/01, 2099/00 and dates in every front-end; non-trivial as above", ctx.cases(300, 30_000), strat_century, check) {
        return;
    }
    ctx.shrink_iters.store(300, std::sync::atomic::Ordering::Relaxed);
    if !ctx.run_prop("text_json_and_pdf", RULE, ctx.cases(40, 3_000), strat, check_with_pdf) {
        return;
    }
    if !ctx.run_prop("century_boundaries_pdf", "as text_json_and_pdf for the century-boundary ledgers", ctx.cases(6, 400), strat_century, check_with_pdf) {
        return;
    }
    crate::props::proc_checks::c17_mcp(ctx);
}

fn replay(name: &str, case: &Value) -> Option<Verdict> {
    match name {
        "text_and_json" | "century_boundaries" => Some(replay_case::<Case, _>(case, check).unwrap_or_else(Verdict::Fail)),
        "text_json_and_pdf" | "century_boundaries_pdf" => Some(replay_case::<Case, _>(case, check_with_pdf).unwrap_or_else(Verdict::Fail)),
        other => crate::props::proc_checks::replay(other, case),
    }
}
