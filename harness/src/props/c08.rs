//! C08 — foreign amounts convert at the HMRC rate of their own month, or the run fails.

use crate::fxtable::{self, Key};
use crate::led::{Money, Tx};
use crate::lgen::{self, GenCfg, GenLedger, SplitMode};
use crate::props::PropDef;
use crate::runner::{replay_case, Ctx, Obs, Tier, Verdict};
use crate::tool::{self, Outcome};
use cgt_core::CgtError;
use cgt_money::{Currency, FxCache, RateFile};
use chrono::Datelike;
use proptest::prelude::*;
use rust_decimal::Decimal;
use serde::{Deserialize, Serialize};
use serde_json::Value;
use std::collections::BTreeMap;
use std::path::PathBuf;
use std::time::{Duration, UNIX_EPOCH};

pub fn def() -> PropDef {
    PropDef {
        id: "C08",
        run,
        replay,
        assumptions: &[
            "the expected table is read by the harness's own scanner from crates/cgt-money/resources/rates; within one file a later row for a currency replaces an earlier one",
            "the GBP twin divides with the same decimal type as the tool, so reports are compared with the standard tolerance and are normally bit-identical",
        ],
    }
}

const CURS: [&str; 10] = ["USD", "EUR", "JPY", "CHF", "AUD", "CAD", "INR", "ZAR", "SEK", "HKD"];

#[derive(Clone, Debug, Serialize, Deserialize)]
pub struct FolderFile {
    pub year: i32,
    pub month: u32,
    pub prefixed: bool,
    pub modified: Option<u64>,
    pub rows: Vec<(String, String)>,
}

#[derive(Clone, Debug, Serialize, Deserialize)]
pub struct Case {
    pub gl: GenLedger,
    /// per money field (in ledger order): 0..=5 GBP, otherwise index into CURS
    pub cur: Vec<u8>,
    pub folder: Vec<FolderFile>,
}

const RULE: &str = "ledgers 2014-06..2027-04 (day offsets stretched x1/x12/x30/x61/x365, so ledgers span days to years) whose every monetary field independently is GBP or one of 10 currencies x rate folders (none / overriding used months / adding months beyond the bundled range, two files for one month with different modification times, both file-name styles); twin = every foreign amount divided by the expected rate; non-trivial = a line whose price and fee are in different currencies, or one currency used in two months, or a folder overriding a month the ledger uses; distinct by DSL hash + folder";

fn folder_strategy(max: usize) -> BoxedStrategy<Vec<FolderFile>> {
    let file = (
        2014i32..2028,
        1u32..13,
        any::<bool>(),
        prop_oneof![Just(None), (1_000u64..2_000_000_000).prop_map(Some)],
        proptest::collection::vec((0usize..CURS.len(), 1u32..400_000, 0u32..5), 1..5),
    )
        .prop_map(|(year, month, prefixed, modified, rows)| FolderFile {
            year,
            month,
            prefixed,
            modified,
            rows: rows.into_iter().map(|(c, m, s)| (CURS[c].to_string(), Decimal::new(m as i64, s).to_string())).collect(),
        });
    proptest::collection::vec(file, 0..=max).boxed()
}

fn strat(t: Tier) -> BoxedStrategy<Case> {
    let cfg = GenCfg::basic().secs(2).days(2, t.pick(10, 20)).splits(SplitMode::Terminating).events(true).dividends(true).years(2014, 2026);
    // the generated day offsets are stretched by a factor, so that one ledger also spans many
    // months and several years (the same currency in the same month of different years)
    (lgen::ledger_strategy(cfg), proptest::collection::vec(0u8..16, 24), prop_oneof![3 => Just(vec![]).boxed(), 5 => folder_strategy(4)], prop_oneof![3 => Just(1i64), 1 => Just(12i64), 1 => Just(30i64), 1 => Just(61i64), 1 => Just(365i64)])
        .prop_map(|(mut gl, cur, folder, k)| {
            if let Some(first) = gl.ledger.iter().map(|t| t.date).min() {
                for t in gl.ledger.iter_mut() {
                    let off = (t.date - first).num_days() * k;
                    t.date = first + chrono::Duration::days(off.min(5000));
                }
            }
            Case { gl, cur, folder }
        })
        .boxed()
}

/// same, but the folder files are aimed at the months the ledger uses
fn strat_aimed(t: Tier) -> BoxedStrategy<Case> {
    strat(t)
        .prop_map(|mut c| {
            let months: Vec<(i32, u32)> = c.gl.ledger.iter().map(|t| (t.date.year(), t.date.month())).collect();
            if !months.is_empty() {
                for (i, f) in c.folder.iter_mut().enumerate() {
                    let (y, m) = months[(i * 7 + f.month as usize) % months.len()];
                    f.year = y;
                    f.month = m;
                }
            }
            c
        })
        .boxed()
}

pub fn file_name(f: &FolderFile) -> String {
    if f.prefixed { format!("monthly_xml_{:04}-{:02}.xml", f.year, f.month) } else { format!("{:04}-{:02}.xml", f.year, f.month) }
}

pub fn rate_files(folder: &[FolderFile]) -> Vec<RateFile> {
    folder
        .iter()
        .map(|f| RateFile {
            name: PathBuf::from(format!("/somewhere/{}", file_name(f))),
            modified: f.modified.map(|s| UNIX_EPOCH + Duration::from_secs(s)),
            xml: fxtable::make_xml(f.year, f.month, &f.rows),
        })
        .collect()
}

/// expected table = bundled, then folder files in modification-time order (stable; None = epoch)
pub fn expected_table(folder: &[FolderFile]) -> BTreeMap<Key, Decimal> {
    let mut t = fxtable::bundled().clone();
    let mut order: Vec<&FolderFile> = folder.iter().collect();
    order.sort_by_key(|f| f.modified.unwrap_or(0));
    for f in order {
        for (code, rate) in &f.rows {
            if let Ok(r) = rate.parse::<Decimal>() {
                t.insert((code.clone(), f.year, f.month), r);
            }
        }
    }
    t
}

pub fn apply_currencies(c: &Case) -> Vec<Tx> {
    let mut l = c.gl.ledger.clone();
    let mut k = 0usize;
    for t in l.iter_mut() {
        for m in t.monies_mut() {
            let sel = c.cur[k % c.cur.len()];
            k += 1;
            if sel >= 6 {
                m.c = CURS[(sel as usize - 6) % CURS.len()].to_string();
            }
        }
    }
    l
}

pub fn check(c: &Case, obs: &mut Obs) -> Verdict {
    if lgen::has_excluded_placement(&c.gl.ledger) {
        obs.excluded += 1;
        return Verdict::Pass;
    }
    let ledger = apply_currencies(c);
    let dsl = crate::led::to_dsl(&ledger);
    obs.hash = crate::led::hash_str(&format!("{dsl}#{:?}", c.folder));
    if obs.sample.is_none() && ledger.iter().any(|t| t.monies().iter().any(|m| !m.is_gbp())) {
        obs.sample = Some(serde_json::json!({"ledger": tool::sample_of(&ledger), "folder": c.folder.iter().map(file_name).collect::<Vec<_>>()}));
    }
    // load the cache the way the CLI does
    let loaded = if c.folder.is_empty() {
        // same entry point the CLI uses without --fx-folder (loaded once per process)
        Ok(Ok(crate::props::c15::fx().clone()))
    } else {
        tool::guarded(|| cgt_money::load_cache_with_overrides(rate_files(&c.folder)))
    };
    let cache: FxCache = match loaded {
        Ok(Ok(c)) => c,
        Ok(Err(e)) => return Verdict::fail(format!("well-formed rate folder rejected: {e}\n{:?}", c.folder)),
        Err(p) => return Verdict::fail(format!("rate loader panicked: {} at {}", p.msg, p.loc)),
    };
    let mut table = expected_table(&c.folder);
    // a (currency, month) given by two or more folder files (or twice in one file): which one
    // wins is not stated; whichever of the supplied rates the tool uses is taken as expected
    {
        let mut candidates: BTreeMap<Key, Vec<Decimal>> = BTreeMap::new();
        for f in &c.folder {
            for (code, rate) in &f.rows {
                if let Ok(r) = rate.parse::<Decimal>() {
                    candidates.entry((code.clone(), f.year, f.month)).or_default().push(r);
                }
            }
        }
        for (key, rates) in candidates.iter().filter(|(_, v)| v.len() >= 2) {
            if let Some(cur) = Currency::from_code(&key.0) {
                if let Some(got) = cache.get(cur, key.1, key.2).map(|e| e.rate_per_gbp) {
                    if rates.contains(&got) {
                        table.insert(key.clone(), got);
                        obs.class("month_given_twice_in_the_folder");
                    }
                }
            }
        }
    }
    // (c) the cache equals the expected table on overridden keys and on neighbours
    for f in &c.folder {
        for (code, _) in &f.rows {
            for (dy, dm) in [(0i32, 0i32), (0, 1), (0, -1), (1, 0), (-1, 0)] {
                let mut y = f.year + dy;
                let mut m = f.month as i32 + dm;
                if m == 0 {
                    m = 12;
                    y -= 1;
                } else if m == 13 {
                    m = 1;
                    y += 1;
                }
                for code2 in [code.as_str(), "USD", "EUR", "DKK"] {
                    let want = table.get(&(code2.to_string(), y, m as u32));
                    let cur = Currency::from_code(code2).expect("iso");
                    let got = cache.get(cur, y, m as u32).map(|e| e.rate_per_gbp);
                    if want.copied() != got {
                        return Verdict::fail(format!("rate for {code2} {y}-{m:02}: cache has {got:?}, expected {want:?} (folder {:?})", c.folder));
                    }
                }
            }
        }
    }
    // classification
    let mut two_cur_line = false;
    let mut cur_months: BTreeMap<String, std::collections::BTreeSet<(i32, u32)>> = BTreeMap::new();
    let mut needed: Vec<Key> = vec![];
    for t in &ledger {
        let ms = t.monies();
        if ms.len() == 2 && ms[0].c != ms[1].c && !ms[1].a.is_zero() {
            two_cur_line = true;
        }
        for (slot, m) in ms.into_iter().enumerate() {
            // a zero FEES/TAX clause (second money field) is zero in any currency and needs no rate
            if !m.is_gbp() && !(slot == 1 && m.a.is_zero()) {
                cur_months.entry(m.c.clone()).or_default().insert((t.date.year(), t.date.month()));
                needed.push((m.c.clone(), t.date.year(), t.date.month()));
            }
        }
    }
    let two_months = cur_months.values().any(|s| s.len() >= 2);
    let overrides_used = c.folder.iter().any(|f| f.rows.iter().any(|(code, _)| needed.contains(&(code.clone(), f.year, f.month))));
    obs.nontrivial = two_cur_line || two_months || overrides_used;
    obs.class_if(two_cur_line, "price_and_fee_in_different_currencies");
    obs.class_if(two_months, "one_currency_in_two_months");
    obs.class_if(overrides_used, "folder_overrides_a_used_month");
    obs.class_if(needed.is_empty(), "all_gbp");
    let missing: Vec<&Key> = needed.iter().filter(|k| !table.contains_key(*k)).collect();
    obs.class_if(!missing.is_empty(), "needs_a_missing_rate");

    let cfg = tool::all_years_config();
    let out = tool::calc_with(&ledger, None, Some(&cache), &cfg);
    if !missing.is_empty() {
        return match out {
            Outcome::Err(CgtError::MissingFxRate { currency, year, month }) => {
                if missing.iter().any(|k| k.0 == currency && k.1 == year && k.2 == month) {
                    // the message names currency and month
                    let msg = CgtError::MissingFxRate { currency: currency.clone(), year, month }.to_string();
                    if !msg.contains(&currency) || !msg.contains(&format!("{year}-{month:02}")) {
                        return Verdict::fail(format!("missing-rate message does not name currency and month: {msg}"));
                    }
                    Verdict::Pass
                } else {
                    Verdict::fail(format!("MissingFxRate names {currency} {year}-{month:02}, which is not a missing pair; missing: {missing:?}\n{dsl}"))
                }
            }
            Outcome::Ok(_) => Verdict::fail(format!("report produced although no rate exists for {missing:?}\n{dsl}")),
            Outcome::Err(e) => {
                // relabelling amounts can also make a capital return too large for its holding:
                // with two obstacles in one ledger, which one is reported is not stated
                if ledger.iter().any(|t| matches!(t.op, crate::led::Op::CapRet { .. })) && e.to_string().to_lowercase().replace(['.', ' '], "").contains("s122") {
                    obs.class("other_obstacle_reported_instead_of_the_missing_rate");
                    return Verdict::Pass;
                }
                Verdict::fail(format!("needed rate missing ({missing:?}) but the run failed differently: {e}\n{dsl}"))
            }
            Outcome::Panic(p) => {
                if p.is_decimal_overflow() {
                    return Verdict::Pass;
                }
                Verdict::fail(format!("calculate panicked: {} at {}", p.msg, p.loc))
            }
        };
    }
    // (a) GBP twin
    let twin: Vec<Tx> = ledger
        .iter()
        .map(|t| {
            let mut t2 = t.clone();
            for m in t2.monies_mut() {
                if !m.is_gbp() {
                    match table.get(&(m.c.clone(), t.date.year(), t.date.month())) {
                        Some(r) => *m = Money::gbp(m.a / *r),
                        None => *m = Money::gbp(Decimal::ZERO), // only a zero FEES/TAX amount gets here
                    }
                }
            }
            t2
        })
        .collect();
    let out_twin = tool::calc_with(&twin, None, None, &cfg);
    match (&out, &out_twin) {
        (Outcome::Ok(a), Outcome::Ok(b)) => match tool::reports_equivalent(a, b, obs) {
            Ok(()) => Verdict::Pass,
            Err(e) => Verdict::fail(format!("foreign-currency ledger and its GBP twin differ: {e}\n--- ledger ---\n{dsl}\n--- twin ---\n{}", crate::led::to_dsl(&twin))),
        },
        (Outcome::Err(x), Outcome::Err(y)) => {
            obs.class("both_rejected");
            if std::mem::discriminant(x) != std::mem::discriminant(y) {
                return Verdict::fail(format!("ledger and GBP twin fail differently: {x} vs {y}"));
            }
            Verdict::Pass
        }
        (Outcome::Panic(p), _) | (_, Outcome::Panic(p)) => Verdict::fail(format!("calculate panicked: {} at {}", p.msg, p.loc)),
        (a, b) => Verdict::fail(format!("ledger {} but GBP twin {}\n{dsl}", a.describe(), b.describe())),
    }
}

// ---------- (d) malformed rate files ----------

#[derive(Clone, Debug, Serialize, Deserialize)]
pub struct BadFile {
    pub year: i32,
    pub month: u32,
    /// 0 period != name; 1 rate zero; 2 negative rate; 3 non-numeric rate; 4 unknown currency row
    /// (must be accepted, row ignored); 5 bad file name; 6 not XML; 7 month 13 in name
    pub kind: u8,
    pub prefixed: bool,
    pub good_first: bool,
}

const RULE_BAD: &str = "one rate file that is mislabelled (period != file name, or a period that starts in the named month and ends in another), has a zero/negative/non-numeric rate (also on a row with an unknown currency code), an unknown currency code with a valid rate (must be ignored, not an error), an unparsable name or content, alone or after a good file; non-trivial = every case; distinct by parameters";

fn strat_bad(_t: Tier) -> BoxedStrategy<BadFile> {
    (2014i32..2028, 1u32..13, 0u8..15, any::<bool>(), any::<bool>()).prop_map(|(year, month, kind, prefixed, good_first)| BadFile { year, month, kind, prefixed, good_first }).boxed()
}

pub fn check_bad(b: &BadFile, obs: &mut Obs) -> Verdict {
    obs.hash = crate::led::hash_str(&format!("{b:?}"));
    obs.nontrivial = true;
    obs.class(&format!("kind_{}", b.kind));
    let good_rows = vec![("USD".to_string(), "1.25".to_string())];
    let (name_y, name_m) = (b.year, b.month);
    let mut name = if b.prefixed { format!("monthly_xml_{name_y:04}-{name_m:02}.xml") } else { format!("{name_y:04}-{name_m:02}.xml") };
    let xml = match b.kind {
        0 => {
            let (py, pm) = if b.month == 12 { (b.year + 1, 1) } else { (b.year, b.month + 1) };
            fxtable::make_xml(py, pm, &good_rows)
        }
        1 => fxtable::make_xml(b.year, b.month, &[("USD".into(), "0".into())]),
        2 => fxtable::make_xml(b.year, b.month, &[("EUR".into(), "-1.1".into())]),
        3 => fxtable::make_xml(b.year, b.month, &[("EUR".into(), "abc".into())]),
        4 => fxtable::make_xml(b.year, b.month, &[("QQQ".into(), "3".into()), ("USD".into(), "1.5".into())]),
        5 => {
            name = "rates.xml".into();
            fxtable::make_xml(b.year, b.month, &good_rows)
        }
        6 => "this is not xml".to_string(),
        7 => {
            name = format!("{:04}-13.xml", b.year);
            fxtable::make_xml(b.year, 12, &good_rows)
        }
        // a non-positive rate is a non-positive rate whatever its row's currency code
        8 => fxtable::make_xml(b.year, b.month, &[("USD".into(), "1.5".into()), ("QQQ".into(), "0".into())]),
        9 => fxtable::make_xml(b.year, b.month, &[("QQQ".into(), "-2".into()), ("USD".into(), "1.5".into())]),
        // the period starts in the month of the file name but ends in another month / year
        10 => {
            let good = fxtable::make_xml(b.year, b.month, &good_rows);
            let (ey, em) = if b.month == 12 { (b.year + 1, 1) } else { (b.year, b.month + 1) };
            const MON: [&str; 12] = ["Jan", "Feb", "Mar", "Apr", "May", "Jun", "Jul", "Aug", "Sep", "Oct", "Nov", "Dec"];
            match good.find(" to ") {
                Some(i) => {
                    let end = good[i..].find('"').map(|j| i + j).unwrap_or(good.len());
                    format!("{} to 28/{}/{}{}", &good[..i], MON[em as usize - 1], ey, &good[end..])
                }
                None => good,
            }
        }
        11 => {
            let good = fxtable::make_xml(b.year, b.month, &good_rows);
            match good.find(" to ") {
                Some(i) => {
                    let end = good[i..].find('"').map(|j| i + j).unwrap_or(good.len());
                    format!("{} to 31/Dec/{}{}", &good[..i], b.year + 1, &good[end..])
                }
                None => good,
            }
        }
        // the same mislabelled period with the two dates joined otherwise than by " to "
        _ => {
            let good = fxtable::make_xml(b.year, b.month, &good_rows);
            let sep = ["\tto\t", " TO ", " - "][(b.kind as usize) % 3];
            match good.find(" to ") {
                Some(i) => {
                    let end = good[i..].find('"').map(|j| i + j).unwrap_or(good.len());
                    format!("{}{sep}31/Dec/{}{}", &good[..i], b.year + 1, &good[end..])
                }
                None => good,
            }
        }
    };
    if obs.sample.is_none() {
        obs.sample = Some(serde_json::json!({"file": name, "kind": b.kind}));
    }
    let mut files = vec![];
    if b.good_first {
        files.push(RateFile { name: PathBuf::from("/x/2019-05.xml"), modified: Some(UNIX_EPOCH), xml: fxtable::make_xml(2019, 5, &good_rows) });
    }
    files.push(RateFile { name: PathBuf::from(format!("/x/{name}")), modified: Some(UNIX_EPOCH + Duration::from_secs(5)), xml });
    let res = match tool::guarded(|| cgt_money::load_cache_with_overrides(files)) {
        Ok(r) => r,
        Err(p) => return Verdict::fail(format!("rate loader panicked: {} at {}", p.msg, p.loc)),
    };
    match (b.kind, res) {
        (4, Ok(cache)) => {
            let got = cache.get(Currency::USD, b.year, b.month).map(|e| e.rate_per_gbp);
            if got != Some("1.5".parse().expect("lit")) {
                return Verdict::fail(format!("file with an unknown currency row: USD {}-{:02} is {got:?}, expected 1.5", b.year, b.month));
            }
            Verdict::Pass
        }
        (4, Err(e)) => Verdict::fail(format!("unknown currency code row must be skipped, but the file was rejected: {e}")),
        (_, Ok(_)) => Verdict::fail(format!("malformed rate file (kind {}) accepted: {name}", b.kind)),
        (_, Err(e)) => {
            if e.to_string().trim().is_empty() {
                return Verdict::fail("empty error".to_string());
            }
            Verdict::Pass
        }
    }
}

fn run(ctx: &Ctx) {
    if !ctx.run_prop("ledger_vs_gbp_twin", RULE, ctx.cases(500, 60_000), strat, check) {
        return;
    }
    if !ctx.run_prop("folder_aimed_at_used_months", RULE, ctx.cases(250, 30_000), strat_aimed, check) {
        return;
    }
    if !ctx.run_prop("malformed_rate_files", RULE_BAD, ctx.cases(100, 5_000), strat_bad, check_bad) {
        return;
    }
    crate::props::proc_checks::c08_cli(ctx);
}

fn replay(name: &str, case: &Value) -> Option<Verdict> {
    match name {
        "ledger_vs_gbp_twin" | "folder_aimed_at_used_months" => Some(replay_case::<Case, _>(case, check).unwrap_or_else(Verdict::Fail)),
        "malformed_rate_files" => Some(replay_case::<BadFile, _>(case, check_bad).unwrap_or_else(Verdict::Fail)),
        other => crate::props::proc_checks::replay(other, case),
    }
}
