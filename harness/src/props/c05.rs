//! C05 — a report is produced iff every sale is covered by shares held.

use crate::led::{Op, Tx};
use crate::lgen::{self, GenCfg, GenLedger, SplitMode};
use crate::model::{self, NoFx, Quirks};
use crate::props::PropDef;
use crate::rat::Rat;
use crate::runner::{replay_case, Ctx, Obs, Tier, Verdict};
use crate::tool::{self, Outcome};
use cgt_core::CgtError;
use chrono::Duration;
use proptest::prelude::*;
use rust_decimal::Decimal;
use serde::{Deserialize, Serialize};
use serde_json::Value;

pub fn def() -> PropDef {
    PropDef { id: "C05", run, replay, assumptions: &["'no other obstacle' by construction: GBP only, every year has an exemption, no CAPRETURN"] }
}

#[derive(Clone, Debug, Serialize, Deserialize)]
pub struct Case {
    pub base: GenLedger,
    /// 0 none; 1 delete a BUY; 2 duplicate a SELL; 3 raise a SELL by one share; 4 raise a SELL by
    /// one unit in the last place; 5 move a SELL before its BUY; 6 insert a SELL the day after a sale
    pub mutation: u8,
    pub idx: u16,
}

const RULE: &str = "accepted ledgers and 'broken' variants (deleted BUY, duplicated SELL, SELL raised by 1 share / 1 ulp, SELL moved earlier, extra SELL the day after a sale); non-trivial = verdict depends on more than the last line: uncovered at a date that is not the last date, or covered only thanks to a same-day buy, or a split precedes the decisive sale; distinct by hash of the mutated DSL";

fn mk(cfg: GenCfg) -> BoxedStrategy<Case> {
    (lgen::ledger_strategy(cfg), prop_oneof![2 => Just(0u8), 8 => 1u8..7], any::<u16>())
        .prop_map(|(base, mutation, idx)| Case { base, mutation, idx })
        .boxed()
}
fn strat_plain(t: Tier) -> BoxedStrategy<Case> {
    mk(GenCfg::basic().secs(2).days(2, t.pick(12, 24)))
}
fn strat_split(t: Tier) -> BoxedStrategy<Case> {
    mk(GenCfg::basic().secs(2).days(2, t.pick(12, 24)).splits(SplitMode::Terminating).dividends(true))
}
fn strat_residue(t: Tier) -> BoxedStrategy<Case> {
    mk(GenCfg::basic().secs(2).days(2, t.pick(10, 20)).splits(SplitMode::Residue))
}
fn strat_shuffled(t: Tier) -> BoxedStrategy<Case> {
    mk(GenCfg::basic().secs(3).days(2, t.pick(10, 20)).splits(SplitMode::Terminating).shuffle(true))
}

pub fn mutate(c: &Case) -> Vec<Tx> {
    let mut l = c.base.ledger.clone();
    let pick = |n: usize| if n == 0 { 0 } else { (c.idx as usize * n) >> 16 };
    let buys: Vec<usize> = l.iter().enumerate().filter(|(_, t)| matches!(t.op, Op::Buy { .. })).map(|(i, _)| i).collect();
    let sells: Vec<usize> = l.iter().enumerate().filter(|(_, t)| matches!(t.op, Op::Sell { .. })).map(|(i, _)| i).collect();
    match c.mutation {
        1 if !buys.is_empty() => {
            l.remove(buys[pick(buys.len())]);
        }
        2 if !sells.is_empty() => {
            let t = l[sells[pick(sells.len())]].clone();
            l.push(t);
        }
        3 if !sells.is_empty() => {
            if let Op::Sell { q, .. } = &mut l[sells[pick(sells.len())]].op {
                *q += Decimal::ONE;
            }
        }
        4 if !sells.is_empty() => {
            if let Op::Sell { q, .. } = &mut l[sells[pick(sells.len())]].op {
                *q += Decimal::new(1, q.scale().max(4));
            }
        }
        5 if !sells.is_empty() => {
            let i = sells[pick(sells.len())];
            let tk = l[i].ticker.clone();
            if let Some(first_buy) = l.iter().filter(|t| t.ticker == tk && matches!(t.op, Op::Buy { .. })).map(|t| t.date).min() {
                l[i].date = first_buy - Duration::days(1 + (c.idx % 40) as i64);
            }
        }
        6 if !sells.is_empty() => {
            let i = sells[pick(sells.len())];
            let mut t = l[i].clone();
            t.date += Duration::days(1);
            // do not create an excluded placement
            if !l.iter().any(|u| (u.is_split() || u.is_event()) && u.date == t.date && u.ticker == t.ticker) {
                l.push(t);
            }
        }
        _ => {}
    }
    l
}

fn has_residue_ratio(l: &[Tx]) -> bool {
    l.iter().any(|t| match &t.op {
        Op::Split { r } | Op::Unsplit { r } => !Rat::from_dec(*r).recip().is_terminating(),
        _ => false,
    })
}

pub fn check(c: &Case, obs: &mut Obs) -> Verdict {
    let ledger = mutate(c);
    check_ledger(&ledger, obs)
}

pub fn check_ledger(ledger: &[Tx], obs: &mut Obs) -> Verdict {
    if lgen::has_excluded_placement(ledger) || ledger.iter().any(|t| matches!(t.op, Op::CapRet { .. })) {
        // a capital return can be refused for its own reason: "no other obstacle" does not hold
        obs.excluded += 1;
        return Verdict::Pass;
    }
    let dsl = crate::led::to_dsl(ledger);
    obs.hash = crate::led::hash_str(&dsl);
    if obs.sample.is_none() {
        obs.sample = Some(tool::sample_of(ledger));
    }
    let m = match model::evaluate(ledger, &NoFx, Quirks::default()) {
        Ok(m) => m,
        Err(e) => return Verdict::fail(format!("harness: FX needed {e:?}")),
    };
    let covered = m.covered();
    let last_date = ledger.iter().map(|t| t.date).max();
    let uncovered: Vec<(String, chrono::NaiveDate, Rat)> =
        m.secs.iter().flat_map(|(k, s)| s.uncovered.iter().map(move |(d, q)| (k.clone(), *d, q.clone()))).collect();
    // non-triviality
    let early_uncovered = uncovered.iter().any(|(_, d, _)| Some(*d) != last_date);
    let split_before = uncovered.iter().any(|(k, d, _)| ledger.iter().any(|t| t.is_split() && t.ticker.eq_ignore_ascii_case(k) && t.date < *d));
    let needs_same_day = covered
        && model::aggregate(ledger, &NoFx).map(|a| {
            a.values().any(|days| {
                let mut h = Rat::zero();
                let mut need = false;
                for d in days {
                    if d.s > h && d.b.is_pos() {
                        need = true;
                    }
                    h = (&h + &d.b - &d.s) * &d.ratio;
                }
                need
            })
        }).unwrap_or(false);
    obs.nontrivial = early_uncovered || needs_same_day || split_before;
    obs.class(if covered { "covered" } else { "uncovered" });
    obs.class_if(early_uncovered, "uncovered_before_last_date");
    obs.class_if(needs_same_day, "covered_only_with_same_day_buy");
    obs.class_if(split_before, "uncovered_after_split");

    let out = tool::calc(ledger);
    match (covered, out) {
        (_, Outcome::Panic(p)) => Verdict::fail(format!("calculate panicked: {} at {}\n{dsl}", p.msg, p.loc)),
        (true, Outcome::Ok(_)) => Verdict::Pass,
        (true, Outcome::Err(e)) => {
            // F3: rounding dust after a non-terminating split ratio makes an exactly covered sale fail
            let msg = e.to_string();
            if is_f3(ledger, &msg) {
                return f3();
            }
            Verdict::fail(format!("covered ledger refused: {msg}\n{dsl}"))
        }
        (false, Outcome::Ok(_)) => {
            // F2: the holding check counts shares already matched to a future repurchase
            let mq = model::evaluate(ledger, &NoFx, Quirks { lax_holding_check: true, ..Default::default() }).expect("model");
            let lax_accepts = mq.secs.values().all(|s| s.tool_would_reject.is_none());
            let after_bnb = uncovered.iter().all(|(k, d, _)| {
                m.secs[k].disposals.iter().any(|x| x.date < *d && x.legs.iter().any(|l| l.rule == model::Rule::Bnb && l.acq.map(|a| a > *d).unwrap_or(false)))
                    || mq.secs[k].disposals.iter().any(|x| x.date < *d && x.legs.iter().any(|l| l.rule == model::Rule::Bnb && l.acq.map(|a| a > *d).unwrap_or(false)))
            });
            if lax_accepts && after_bnb {
                return Verdict::Known {
                    finding: "F2",
                    what: "uncovered sale accepted: an earlier sale of the security was 30-day matched to a repurchase that has not happened yet, and those shares are still counted as held".into(),
                };
            }
            Verdict::fail(format!("report produced although sales are not covered: {:?}\n{dsl}", uncovered.iter().map(|(k, d, q)| format!("{k} {d} short by {q}")).collect::<Vec<_>>()))
        }
        (false, Outcome::Err(e)) => {
            // whatever the error type: its text must name the security and the date (ISO or UK form)
            let text = &e.to_string();
            let names = uncovered.iter().any(|(k, d, _)| text.to_uppercase().contains(k.to_uppercase().as_str()) && (text.contains(&d.format("%Y-%m-%d").to_string()) || text.contains(&d.format("%d/%m/%Y").to_string())));
            if names {
                Verdict::Pass
            } else if is_f3(ledger, text) {
                // the tool stopped at an earlier, exactly covered sale because of rounding dust
                f3()
            } else {
                Verdict::fail(format!("error does not name an uncovered (security, date): '{text}'; uncovered: {:?}\n{dsl}", uncovered.iter().map(|(k, d, _)| format!("{k} {d}")).collect::<Vec<_>>()))
            }
        }
    }
}

fn f3() -> Verdict {
    Verdict::Known {
        finding: "F3",
        what: "covered sale refused because the holding computed through a non-terminating split ratio is short by rounding dust (< 1e-20 relative)".into(),
    }
}

fn is_f3(ledger: &[Tx], msg: &str) -> bool {
    if !has_residue_ratio(ledger) {
        return false;
    }
    match parse_exceeds(msg) {
        Some((want, have)) => {
            let gap = (&want - &have).abs();
            gap <= Rat::from_str_dec("0.00000000000000000001").expect("lit") * want.abs().max(Rat::one())
        }
        None => false,
    }
}

/// Parse "disposal of X shares exceeds holding of Y" or "attempted X, matched Y" from the error text.
fn parse_exceeds(msg: &str) -> Option<(Rat, Rat)> {
    let grab = |after: &str| -> Option<Rat> {
        let i = msg.find(after)? + after.len();
        let rest = &msg[i..];
        let tok: String = rest.chars().take_while(|c| c.is_ascii_digit() || *c == '.' || *c == '-').collect();
        Rat::from_str_dec(tok.trim_end_matches('.'))
    };
    if let (Some(a), Some(b)) = (grab("disposal of "), grab("exceeds holding of ")) {
        return Some((a, b));
    }
    if let (Some(a), Some(b)) = (grab("attempted "), grab("matched ")) {
        return Some((a, b));
    }
    None
}

fn run(ctx: &Ctx) {
    if !ctx.run_prop("plain", RULE, ctx.cases(1500, 160_000), strat_plain, check) {
        return;
    }
    if !ctx.run_prop("terminating_splits", RULE, ctx.cases(1200, 160_000), strat_split, check) {
        return;
    }
    if !ctx.run_prop("residue_splits", RULE, ctx.cases(600, 80_000), strat_residue, check) {
        return;
    }
    if !ctx.run_prop("shuffled_lines", RULE, ctx.cases(600, 80_000), strat_shuffled, check) {
        return;
    }
    if !crate::props::proc_checks::c05_front(ctx) {
        return;
    }
    if ctx.tier == Tier::Thorough {
        ctx.run_fuzz("libfuzzer_ledger", "ledger", (30_000.0 * ctx.scale) as u64, 1200, "coverage-guided libFuzzer campaign: bytes decoded into a ledger recipe (structure-aware), the proptest oracles of C01/C02/C03/C05 inside the target; evaluations = executions, distinct_nontrivial = distinct corpus entries (inputs that reached new coverage)");
    }
}

fn replay(name: &str, case: &Value) -> Option<Verdict> {
    match name {
        "plain" | "terminating_splits" | "residue_splits" | "shuffled_lines" => {
            Some(replay_case::<Case, _>(case, check).unwrap_or_else(Verdict::Fail))
        }
        other => crate::props::proc_checks::replay(other, case),
    }
}
