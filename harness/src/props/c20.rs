//! C20 — the MCP server answers every request, statelessly, whatever came before.

use crate::lgen::{self, GenCfg, GenLedger, SplitMode};
use crate::proc::{self, tool_call, tool_text, Mcp, Scratch};
use crate::props::PropDef;
use crate::runner::{replay_case, Ctx, Obs, Tier, Verdict};
use crate::tool::{self, Outcome};
use proptest::prelude::*;
use serde::{Deserialize, Serialize};
use serde_json::{json, Value};
use std::collections::BTreeMap;
use std::time::{Duration, Instant};

pub fn def() -> PropDef {
    PropDef {
        id: "C20",
        run,
        replay,
        assumptions: &[
            "tokio's interleavings are provoked (fully pipelined sessions, 16 concurrent sessions) but not enumerated",
            "envelopes are valid JSON-RPC with an id (a line that is not JSON has no id to answer); one client notification per session checks that notifications get no response",
            "a request whose own arguments make the library hit finding F7 (decimal overflow panic) is expected to stay unanswered and is attributed to F7 only then",
        ],
    }
}

#[derive(Clone, Debug, Serialize, Deserialize)]
pub enum Req {
    Parse { dsl: bool },
    ParseInvalid(u8),
    /// valid JSON or DSL rendering of the ledger with byte edits (pos, op, byte): any single answer is fine
    Mutated { tool: u8, json_input: bool, edits: Vec<(u16, u8, u8)> },
    Calc { year: Option<i32>, json_input: bool },
    CalcUncovered,
    CalcMissingRate,
    CalcUnconfiguredYear,
    CalcEmpty,
    /// the ledger text with something around it that the DSL reader itself must judge: leading blank
    /// lines before a corrupted line (error position), or a trailing form feed / NBSP (not valid DSL)
    Padded(u8),
    CalcOverflow,
    Explain(u16),
    ExplainMissing,
    /// a ticker the ledger does not contain (the error lists the tickers that have disposals)
    ExplainUnknownTicker,
    ExplainBadDate,
    Fx { cur: u8, year: i32, month: u32 },
    FxBad(u8),
    ToDsl,
    ToDslInvalid,
    BadArgs(u8),
    UnknownTool,
    ToolsList,
    ResourcesList,
    ResourceRead(u8),
    Ping,
    UnknownMethod,
    Notification,
}

#[derive(Clone, Debug, Serialize, Deserialize)]
pub struct Session {
    pub gl: GenLedger,
    pub reqs: Vec<Req>,
    pub pipelined: bool,
}

const RULE: &str = "sessions of 5-60 requests drawn from the five tools with valid arguments (generated ledgers as DSL or JSON), failing calculations (uncovered sale, missing rate, unconfigured year, empty input, overflow), malformed arguments, unknown tool/method, tools/list, resources/list/read, ping, one notification, up to 5 requests sent twice (adjacent or at the end); delivered fully pipelined or one at a time, then stdin closed; every session is run twice (as generated, and reversed one-at-a-time) and equal requests must get equal answers; non-trivial = >=1 failing request followed by >=1 succeeding one, or pipelined with >=10 requests; distinct by session hash";

fn arb_req() -> BoxedStrategy<Req> {
    prop_oneof![
        4 => any::<bool>().prop_map(|dsl| Req::Parse { dsl }),
        2 => (0u8..4).prop_map(Req::ParseInvalid),
        5 => (0u8..4, any::<bool>(), proptest::collection::vec((any::<u16>(), 0u8..5, any::<u8>()), 1..4)).prop_map(|(tool, json_input, edits)| Req::Mutated { tool, json_input, edits }),
        6 => (prop_oneof![2 => Just(None), 1 => (2014i32..2026).prop_map(Some)], any::<bool>()).prop_map(|(year, json_input)| Req::Calc { year, json_input }),
        2 => Just(Req::CalcUncovered),
        1 => Just(Req::CalcMissingRate),
        2 => Just(Req::CalcUnconfiguredYear),
        1 => Just(Req::CalcEmpty),
        2 => (0u8..6).prop_map(Req::Padded),
        1 => Just(Req::CalcOverflow),
        4 => any::<u16>().prop_map(Req::Explain),
        1 => Just(Req::ExplainMissing),
        2 => Just(Req::ExplainUnknownTicker),
        1 => Just(Req::ExplainBadDate),
        3 => (0u8..6, 2014i32..2028, 1u32..13).prop_map(|(cur, year, month)| Req::Fx { cur, year, month }),
        2 => (0u8..4).prop_map(Req::FxBad),
        2 => Just(Req::ToDsl),
        1 => Just(Req::ToDslInvalid),
        3 => (0u8..5).prop_map(Req::BadArgs),
        1 => Just(Req::UnknownTool),
        1 => Just(Req::ToolsList),
        1 => Just(Req::ResourcesList),
        2 => (0u8..3).prop_map(Req::ResourceRead),
        1 => Just(Req::Ping),
        1 => Just(Req::Notification),
    ]
    .boxed()
}

fn strat(t: Tier) -> BoxedStrategy<Session> {
    let cfg = GenCfg::basic().secs(2).days(2, t.pick(8, 12)).splits(SplitMode::Terminating).dividends(true).years(2015, 2023);
    // some requests are sent twice (the copy right after the original, or at the end): a repeated
    // request must get the same answer again, whatever the first attempt left behind
    (lgen::ledger_strategy(cfg), proptest::collection::vec(arb_req(), 5..t.pick(30, 60)), any::<bool>(), proptest::collection::vec((any::<u16>(), any::<bool>()), 0..6))
        .prop_map(|(gl, mut reqs, pipelined, dups)| {
            for (pick, adjacent) in dups {
                let i = (pick as usize * reqs.len()) >> 16;
                let copy = reqs[i].clone();
                if matches!(copy, Req::Notification) {
                    continue;
                }
                if adjacent {
                    reqs.insert(i + 1, copy);
                } else {
                    reqs.push(copy);
                }
            }
            Session { gl, reqs, pipelined }
        })
        .boxed()
}

const FX_CURS: [&str; 6] = ["USD", "EUR", "JPY", "usd", "Chf", "AUD"];

struct Built {
    /// "line:column" the library's own parse error points at (the MCP error must point there too)
    expect_err_pos: Option<String>,
    msg: Value,
    /// None for notifications
    id: Option<i64>,
    expect_ok: Option<bool>,
    expect_unanswered_f7: bool,
    key: String,
}

fn build(s: &Session, order: &[usize]) -> Vec<Built> {
    let ledger = &s.gl.ledger;
    let dsl = crate::led::to_dsl(ledger);
    let core = crate::led::to_core(ledger);
    let jtxt = serde_json::to_string(&core).unwrap_or_default();
    let cfg = cgt_core::Config::embedded().unwrap_or_default();
    let fx = crate::props::c15::fx();
    let base_ok = matches!(tool::calc_with(ledger, None, Some(fx), &cfg), Outcome::Ok(_));
    let disposals: Vec<(String, String)> = match tool::calc_with(ledger, None, Some(fx), &cfg) {
        Outcome::Ok(r) => r.tax_years.iter().flat_map(|y| y.disposals.iter().map(|d| (d.date.to_string(), d.ticker.clone()))).collect(),
        _ => vec![],
    };
    let mut out = vec![];
    for (pos, &i) in order.iter().enumerate() {
        let id = 100 + pos as i64;
        let r = &s.reqs[i];
        let mut pending_pos: Option<String> = None;
        let (msg, expect_ok, f7): (Value, Option<bool>, bool) = match r {
            Req::Parse { dsl: use_dsl } => (tool_call(id, "parse_transactions", json!({"transactions": if *use_dsl { dsl.clone() } else { jtxt.clone() }})), Some(true), false),
            Req::ParseInvalid(k) => {
                let bad = match k % 4 {
                    0 => "2024-01-01 BUX AAA 1 @ 1".to_string(),
                    1 => "[{\"date\": \"2024-01-01\"}]".to_string(),
                    2 => "[not json".to_string(),
                    _ => "2024-13-45 BUY AAA 1 @ 1".to_string(),
                };
                (tool_call(id, "parse_transactions", json!({"transactions": bad})), Some(false), false)
            }
            Req::Mutated { tool, json_input, edits } => {
                const BYTES: &[u8] = b"\n\r\t \"{}[],:\\#@.-09AZaz\x00\x1f";
                let mut bytes = if *json_input { jtxt.clone() } else { dsl.clone() }.into_bytes();
                for (pos, op, b) in edits {
                    if bytes.is_empty() {
                        break;
                    }
                    let p = (*pos as usize * bytes.len()) >> 16;
                    let byte = BYTES[*b as usize % BYTES.len()];
                    match op {
                        3 | 4 => {
                            // a run of multi-byte characters (error messages that quote or
                            // point into the text must cope with them), anywhere or near the end
                            const WIDE: [&str; 4] = ["\u{20ac}", "\u{e9}", "\u{1f600}", "\u{4e2d}"];
                            let run = WIDE[*b as usize % 4].repeat(1 + (*b as usize / 4) % 6);
                            let at = if *op == 4 { bytes.len() - (p % 24).min(bytes.len()) } else { p };
                            for (k, x) in run.bytes().enumerate() {
                                bytes.insert(at + k, x);
                            }
                        }
                        _ => {}
                    }
                    match op % 3 {
                        _ if *op >= 3 => {}
                        0 => bytes.insert(p, byte),
                        1 => {
                            bytes.remove(p);
                        }
                        _ => bytes[p] = byte,
                    }
                }
                let text = String::from_utf8_lossy(&bytes).to_string();
                let name = ["parse_transactions", "calculate_report", "convert_to_dsl", "explain_matching"][*tool as usize % 4];
                let args = if name == "explain_matching" { json!({"transactions": text, "disposal_date": "2020-01-01", "ticker": "AAA"}) } else { json!({"transactions": text}) };
                // F7 can be reached by an edit that creates a huge number: predicted through the library
                let f7 = match cgt_core::parser::parse_file(&text) {
                    Ok(txs) if !text.trim_start().starts_with('[') => matches!(tool::guarded(|| cgt_core::calculator::calculate(&txs, None, Some(fx), &cfg)), Err(p) if p.is_decimal_overflow()),
                    _ => false,
                } || serde_json::from_str::<Vec<cgt_core::Transaction>>(text.trim()).ok().map(|txs| matches!(tool::guarded(|| cgt_core::calculator::calculate(&txs, None, Some(fx), &cfg)), Err(p) if p.is_decimal_overflow())).unwrap_or(false);
                (tool_call(id, name, args), None, f7 && name != "parse_transactions" && name != "convert_to_dsl")
            }
            Req::Calc { year, json_input } => {
                let input = if *json_input { jtxt.clone() } else { dsl.clone() };
                let mut args = json!({"transactions": input});
                if let Some(y) = year {
                    args["year"] = json!(y);
                }
                let ok = if ledger.is_empty() { false } else { matches!(tool::calc_with(ledger, *year, Some(fx), &cfg), Outcome::Ok(_)) };
                (tool_call(id, "calculate_report", args), Some(ok), false)
            }
            Req::CalcUncovered => (tool_call(id, "calculate_report", json!({"transactions": "2020-01-01 BUY ZZZ 1 @ 1\n2020-02-01 SELL ZZZ 5 @ 1"})), Some(false), false),
            Req::CalcMissingRate => (tool_call(id, "calculate_report", json!({"transactions": "2020-01-01 BUY ZZZ 1 @ 1 XAU\n2020-02-01 SELL ZZZ 1 @ 1 XAU"})), Some(false), false),
            Req::CalcUnconfiguredYear => (tool_call(id, "calculate_report", json!({"transactions": "1999-01-01 BUY ZZZ 9 @ 1\n1999-02-01 SELL ZZZ 1 @ 2\n2001-02-01 SELL ZZZ 1 @ 2\n2003-02-01 SELL ZZZ 1 @ 2\n2005-02-01 SELL ZZZ 1 @ 2\n2007-02-01 SELL ZZZ 1 @ 2\n2009-02-01 SELL ZZZ 1 @ 2"})), Some(false), false),
            // (whether an empty ledger is refused or answered with an empty report is not stated)
            Req::CalcEmpty => (tool_call(id, "calculate_report", json!({"transactions": "# nothing"})), None, false),
            Req::Padded(k) => {
                let text = match k % 3 {
                    0 => format!("\n\n\n{dsl}\n2020-01-02 BOGUS AAA 1 @ 1\n"),
                    1 => format!("{dsl}\n\u{c}"),
                    _ => format!("\u{a0}{dsl}\n"),
                };
                let name = if k / 3 == 0 { "calculate_report" } else { "parse_transactions" };
                // what the DSL reader (and therefore the CLI) says about exactly this text
                let lib = cgt_core::parser::parse_file(&text);
                let ok = match &lib {
                    Ok(txs) if name == "calculate_report" => !txs.is_empty() && matches!(tool::guarded(|| cgt_core::calculator::calculate(txs, None, Some(fx), &cfg)), Ok(Ok(_))),
                    Ok(txs) => !txs.is_empty(),
                    Err(_) => false,
                };
                pending_pos = lib.err().and_then(|e| e.to_string().split("-->").nth(1).and_then(|r| r.split_whitespace().next().map(String::from)));
                (tool_call(id, name, json!({"transactions": text})), Some(ok), false)
            }
            Req::CalcOverflow => (tool_call(id, "calculate_report", json!({"transactions": "2020-01-01 BUY BIG 70000000000000000 @ 70000000000000000"})), None, true),
            Req::Explain(k) => {
                if disposals.is_empty() {
                    (tool_call(id, "explain_matching", json!({"transactions": dsl, "disposal_date": "2020-01-01", "ticker": "NONE"})), Some(false), false)
                } else {
                    let (d, t) = &disposals[(*k as usize) % disposals.len()];
                    (tool_call(id, "explain_matching", json!({"transactions": dsl, "disposal_date": d, "ticker": t})), Some(true), false)
                }
            }
            Req::ExplainMissing => (tool_call(id, "explain_matching", json!({"transactions": dsl, "disposal_date": "1987-10-19", "ticker": "AAA"})), Some(false), false),
            Req::ExplainUnknownTicker => (tool_call(id, "explain_matching", json!({"transactions": dsl, "disposal_date": "2020-01-01", "ticker": "NOSUCH"})), Some(false), false),
            Req::ExplainBadDate => (tool_call(id, "explain_matching", json!({"transactions": dsl, "disposal_date": "19/10/1987", "ticker": "AAA"})), Some(false), false),
            Req::Fx { cur, year, month } => {
                let code = FX_CURS[*cur as usize % FX_CURS.len()];
                let ok = crate::fxtable::bundled().contains_key(&(code.to_uppercase(), *year, *month));
                (tool_call(id, "get_fx_rate", json!({"currency": code, "year": year, "month": month})), Some(ok), false)
            }
            Req::FxBad(k) => {
                let args = match k % 4 {
                    0 => json!({"currency": "QQQ", "year": 2020, "month": 5}),
                    1 => json!({"currency": "USD", "year": 2020, "month": 13}),
                    2 => json!({"currency": "USD", "year": 2020, "month": 0}),
                    _ => json!({"currency": "", "year": 1800, "month": 1}),
                };
                (tool_call(id, "get_fx_rate", args), Some(false), false)
            }
            Req::ToDsl => (tool_call(id, "convert_to_dsl", json!({"transactions": jtxt})), Some(true), false),
            Req::ToDslInvalid => (tool_call(id, "convert_to_dsl", json!({"transactions": "[{\"date\":\"2024-01-01\",\"ticker\":\"A\",\"action\":\"BUY\",\"amount\":\"-1\",\"price\":\"1\"}]"})), Some(false), false),
            Req::BadArgs(k) => {
                let m = match k % 5 {
                    0 => tool_call(id, "calculate_report", json!({"transactions": 5})),
                    1 => tool_call(id, "calculate_report", json!({})),
                    2 => tool_call(id, "get_fx_rate", json!({"currency": "USD", "year": "twenty", "month": 1})),
                    3 => tool_call(id, "explain_matching", json!({"transactions": dsl})),
                    _ => json!({"jsonrpc":"2.0","id":id,"method":"tools/call","params":{"name":"parse_transactions"}}),
                };
                (m, Some(false), false)
            }
            Req::UnknownTool => (tool_call(id, "launch_rockets", json!({})), Some(false), false),
            Req::ToolsList => (json!({"jsonrpc":"2.0","id":id,"method":"tools/list"}), Some(true), false),
            Req::ResourcesList => (json!({"jsonrpc":"2.0","id":id,"method":"resources/list"}), Some(true), false),
            Req::ResourceRead(k) => {
                let (uri, ok) = match k % 3 {
                    0 => ("cgt://docs/dsl-syntax".to_string(), None),
                    1 => ("cgt://no/such/resource".to_string(), Some(false)),
                    _ => ("file:///etc/passwd".to_string(), Some(false)),
                };
                (json!({"jsonrpc":"2.0","id":id,"method":"resources/read","params":{"uri":uri}}), ok, false)
            }
            Req::Ping => (json!({"jsonrpc":"2.0","id":id,"method":"ping"}), Some(true), false),
            Req::UnknownMethod => (json!({"jsonrpc":"2.0","id":id,"method":"cgt/does-not-exist","params":{}}), Some(false), false),
            Req::Notification => (json!({"jsonrpc":"2.0","method":"notifications/roots/list_changed"}), None, false),
        };
        let _ = base_ok;
        let is_notif = matches!(r, Req::Notification);
        // key = the request without its id
        let mut k = msg.clone();
        if let Some(o) = k.as_object_mut() {
            o.remove("id");
        }
        out.push(Built { expect_err_pos: pending_pos, msg, id: if is_notif { None } else { Some(id) }, expect_ok: expect_ok, expect_unanswered_f7: f7, key: k.to_string() });
    }
    out
}

fn resp_ok(v: &Value) -> bool {
    v.get("result").is_some() && v.get("error").is_none() && !v.pointer("/result/isError").and_then(|b| b.as_bool()).unwrap_or(false)
}

/// normalised payload of a response (without id; the tools of a tools/list answer sorted by
/// name: their order is not part of any tool's answer)
fn payload(v: &Value) -> String {
    let mut k = v.clone();
    if let Some(o) = k.as_object_mut() {
        o.remove("id");
    }
    if let Some(tools) = k.pointer_mut("/result/tools").and_then(|t| t.as_array_mut()) {
        tools.sort_by_key(|t| t.get("name").and_then(|n| n.as_str()).unwrap_or("").to_string());
    }
    k.to_string()
}

struct RunOut {
    /// id -> responses received
    got: BTreeMap<i64, Vec<Value>>,
    stray: Vec<Value>,
    exit: Option<i32>,
    alive_before_eof: bool,
}

fn run_session(built: &[Built], pipelined: bool) -> RunOut {
    let mut m = Mcp::start(false);
    if !m.handshake() {
        proc::inconclusive("MCP handshake failed");
    }
    let mut got: BTreeMap<i64, Vec<Value>> = BTreeMap::new();
    let mut stray = vec![];
    let mut take = |v: Value, got: &mut BTreeMap<i64, Vec<Value>>, stray: &mut Vec<Value>| match v.get("id").and_then(|x| x.as_i64()) {
        Some(id) if v.get("method").is_none() => got.entry(id).or_default().push(v),
        _ => stray.push(v),
    };
    let expected_ids: Vec<i64> = built.iter().filter(|b| !b.expect_unanswered_f7).filter_map(|b| b.id).collect();
    if pipelined {
        let msgs: Vec<Value> = built.iter().map(|b| b.msg.clone()).collect();
        m.send_batch(&msgs);
        let deadline = Instant::now() + Duration::from_secs(25);
        while expected_ids.iter().any(|id| !got.contains_key(id)) && Instant::now() < deadline {
            if let Some(v) = m.recv(Duration::from_millis(500)) {
                take(v, &mut got, &mut stray);
            } else if !m.is_alive() {
                break;
            }
        }
    } else {
        for b in built {
            m.send(&b.msg);
            let Some(id) = b.id else { continue };
            let wait = if b.expect_unanswered_f7 { Duration::from_millis(1500) } else { Duration::from_secs(15) };
            let deadline = Instant::now() + wait;
            while !got.contains_key(&id) && Instant::now() < deadline {
                if let Some(v) = m.recv(Duration::from_millis(200)) {
                    take(v, &mut got, &mut stray);
                } else if !m.is_alive() {
                    break;
                }
            }
        }
    }
    // a little grace for duplicates / late strays
    while let Some(v) = m.recv(Duration::from_millis(150)) {
        take(v, &mut got, &mut stray);
    }
    let alive = m.is_alive();
    let (exit, rest) = m.close(Duration::from_secs(30));
    for v in rest {
        take(v, &mut got, &mut stray);
    }
    RunOut { got, stray, exit, alive_before_eof: alive }
}

pub fn check(s: &Session, obs: &mut Obs) -> Verdict {
    if lgen::has_excluded_placement(&s.gl.ledger) {
        obs.excluded += 1;
        return Verdict::Pass;
    }
    let dsl = crate::led::to_dsl(&s.gl.ledger);
    obs.hash = crate::led::hash_str(&format!("{dsl}#{:?}#{}", s.reqs, s.pipelined));
    let order: Vec<usize> = (0..s.reqs.len()).collect();
    let built = build(s, &order);
    // classification
    let mut seen_fail = false;
    let mut fail_then_ok = false;
    for b in &built {
        match b.expect_ok {
            Some(false) => seen_fail = true,
            Some(true) if seen_fail => fail_then_ok = true,
            _ => {}
        }
    }
    obs.nontrivial = fail_then_ok || (s.pipelined && built.len() >= 10);
    obs.class(if s.pipelined { "pipelined" } else { "one_at_a_time" });
    obs.class_if(fail_then_ok, "failure_followed_by_success");
    obs.class_if(built.iter().any(|b| b.expect_unanswered_f7), "contains_overflow_request");
    if obs.sample.is_none() {
        obs.sample = Some(json!({"pipelined": s.pipelined, "requests": s.reqs.iter().take(12).map(|r| format!("{r:?}")).collect::<Vec<_>>(), "ledger_lines": s.gl.ledger.len()}));
    }
    let a = run_session(&built, s.pipelined);
    let mut known_f7 = false;
    if let Err(v) = judge(&built, &a, &dsl, &mut known_f7, "as generated") {
        return v;
    }
    // second run: reversed order, one at a time; equal requests must get equal answers
    let rev: Vec<usize> = order.iter().rev().cloned().collect();
    let built_b = build(s, &rev);
    let b = run_session(&built_b, false);
    if let Err(v) = judge(&built_b, &b, &dsl, &mut known_f7, "reversed, one at a time") {
        return v;
    }
    let mut by_key: BTreeMap<String, String> = BTreeMap::new();
    for (bs, out) in [(&built, &a), (&built_b, &b)] {
        for x in bs.iter() {
            let Some(id) = x.id else { continue };
            let Some(resp) = out.got.get(&id).and_then(|v| v.first()) else { continue };
            let p = payload(resp);
            match by_key.get(&x.key) {
                Some(prev) if *prev != p => {
                    return Verdict::fail(format!(
                        "the same request got different answers depending on position/history/delivery:\nrequest {}\n--- one answer ---\n{}\n--- another ---\n{}",
                        truncate(&x.key, 400),
                        truncate(prev, 600),
                        truncate(&p, 600)
                    ));
                }
                Some(_) => {}
                None => {
                    by_key.insert(x.key.clone(), p);
                }
            }
        }
    }
    // correctness against the library / CLI for the generated ledger
    if let Err(v) = cross_check(s, &built, &a, &dsl) {
        return v;
    }
    if known_f7 {
        return crate::props::c15::f7(&tool::PanicInfo { msg: "Multiplication overflowed".into(), loc: "rust_decimal (MCP request left unanswered)".into() });
    }
    Verdict::Pass
}

fn truncate(s: &str, n: usize) -> String {
    if s.len() > n { format!("{}...", s.chars().take(n).collect::<String>()) } else { s.to_string() }
}

fn judge(built: &[Built], out: &RunOut, dsl: &str, known_f7: &mut bool, label: &str) -> Result<(), Verdict> {
    if !out.alive_before_eof {
        return Err(Verdict::fail(format!("[{label}] the server exited before its input was closed (exit {:?})\nledger:\n{dsl}", out.exit)));
    }
    if out.exit.is_none() {
        // had to be killed 30 s after its input was closed: not something the statement speaks
        // about ("keeps running until its input closes"); cannot be judged here
        proc::inconclusive(&format!("[{label}] MCP server still running 30 s after stdin was closed"));
    }
    let ids: Vec<i64> = built.iter().filter_map(|b| b.id).collect();
    for (id, v) in &out.got {
        if !ids.contains(id) {
            return Err(Verdict::fail(format!("[{label}] response for an id that was never sent: {id}")));
        }
        if v.len() > 1 {
            return Err(Verdict::fail(format!("[{label}] request {id} answered {} times", v.len())));
        }
    }
    for v in &out.stray {
        // server-initiated requests/notifications are fine; a response without a usable id is not
        if v.get("method").is_none() {
            return Err(Verdict::fail(format!("[{label}] a response without a request id: {}", truncate(&v.to_string(), 300))));
        }
    }
    for b in built {
        let Some(id) = b.id else { continue };
        match out.got.get(&id).and_then(|v| v.first()) {
            None => {
                if b.expect_unanswered_f7 {
                    // attribute to F7 only if the library really panics with the overflow signature
                    let txt = b.msg.pointer("/params/arguments/transactions").and_then(|x| x.as_str()).unwrap_or("");
                    let parsed: Option<Vec<cgt_core::Transaction>> = if txt.trim_start().starts_with('[') { serde_json::from_str(txt.trim()).ok() } else { cgt_core::parser::parse_file(txt.trim()).ok() };
                    let reproduces = match parsed {
                        Some(txs) => {
                            let cfg = cgt_core::Config::embedded().unwrap_or_default();
                            matches!(tool::guarded(|| cgt_core::calculator::calculate(&txs, None, Some(crate::props::c15::fx()), &cfg)), Err(p) if p.is_decimal_overflow())
                        }
                        None => false,
                    };
                    if reproduces {
                        *known_f7 = true;
                        continue;
                    }
                }
                return Err(Verdict::fail(format!("[{label}] request id {id} was never answered: {}", truncate(&b.msg.to_string(), 500))));
            }
            Some(resp) => {
                if resp.get("jsonrpc").and_then(|x| x.as_str()) != Some("2.0") || (resp.get("result").is_none() && resp.get("error").is_none()) {
                    return Err(Verdict::fail(format!("[{label}] response to {id} is neither result nor error: {}", truncate(&resp.to_string(), 300))));
                }
                if let (Some(pos), false) = (&b.expect_err_pos, resp_ok(resp)) {
                    let msg = resp.pointer("/error/message").and_then(|m| m.as_str()).unwrap_or("");
                    if !msg.contains(&format!("--> {pos}")) {
                        return Err(Verdict::fail(format!(
                            "[{label}] the DSL reader reports the error of this text at {pos}, the MCP answer points elsewhere: {}\nrequest {}",
                            truncate(msg, 300),
                            truncate(&b.msg.to_string(), 400)
                        )));
                    }
                }
                if let Some(want) = b.expect_ok {
                    if resp_ok(resp) != want {
                        return Err(Verdict::fail(format!(
                            "[{label}] request {} expected to {} but got {}",
                            truncate(&b.msg.to_string(), 400),
                            if want { "succeed" } else { "fail" },
                            truncate(&resp.to_string(), 500)
                        )));
                    }
                }
            }
        }
    }
    Ok(())
}

fn cross_check(s: &Session, built: &[Built], out: &RunOut, dsl: &str) -> Result<(), Verdict> {
    let ledger = &s.gl.ledger;
    let core = crate::led::to_core(ledger);
    let cfg = cgt_core::Config::embedded().unwrap_or_default();
    let fx = crate::props::c15::fx();
    let mut cli_done = false;
    for (b, r) in built.iter().zip(s.reqs.iter()) {
        let Some(id) = b.id else { continue };
        let Some(resp) = out.got.get(&id).and_then(|v| v.first()) else { continue };
        if !resp_ok(resp) {
            continue;
        }
        let text = match tool_text(resp) {
            Ok(t) => t,
            Err(_) => continue,
        };
        match r {
            Req::Parse { .. } => {
                let got: Value = serde_json::from_str(&text).map_err(|e| Verdict::fail(format!("parse_transactions result is not JSON: {e}")))?;
                let want = serde_json::to_value(&core).unwrap_or(Value::Null);
                if got != want {
                    return Err(Verdict::fail(format!("parse_transactions differs from the library's parse of the same input\n{dsl}")));
                }
                // "the same input" for the CLI is the same DSL text (the CLI has no JSON reader; a
                // JSON rendering may spell a zero fee "0.00" where the DSL omits the clause)
                if !cli_done && !ledger.is_empty() && matches!(r, Req::Parse { dsl: true }) {
                    let sc = Scratch::new("c20");
                    let f = sc.write("in.cgt", &(dsl.to_string() + "\n"));
                    let o = proc::run_cli(&sc, &["parse", &f.to_string_lossy()]);
                    let cli: Value = serde_json::from_slice(&o.stdout).unwrap_or(Value::Null);
                    if cli != got {
                        let first = match (cli.as_array(), got.as_array()) {
                            (Some(a), Some(b)) => a.iter().zip(b.iter()).find(|(x, y)| x != y).map(|(x, y)| format!("cli {x} vs mcp {y}")).unwrap_or_else(|| format!("{} vs {} transactions", a.len(), b.len())),
                            _ => format!("cli output: {}", truncate(&o.describe(), 300)),
                        };
                        return Err(Verdict::fail(format!("parse_transactions differs from `cgt-tool parse`: {first}\n{dsl}")));
                    }
                }
            }
            Req::Calc { year, json_input } => {
                let Outcome::Ok(rep) = tool::calc_with(ledger, *year, Some(fx), &cfg) else { continue };
                let got: Value = serde_json::from_str(&text).map_err(|e| Verdict::fail(format!("calculate_report result is not JSON: {e}")))?;
                let want = json!({"tax_years": rep.tax_years, "holdings": rep.holdings});
                if got != want {
                    return Err(Verdict::fail(format!("calculate_report (year {year:?}) differs from the library's report\n{dsl}\n--- mcp ---\n{}\n--- library ---\n{}", truncate(&got.to_string(), 800), truncate(&want.to_string(), 800))));
                }
                // (CLI comparison on the same DSL text only, see above)
                if !cli_done && !*json_input {
                    cli_done = true;
                    let sc = Scratch::new("c20");
                    let f = sc.write("in.cgt", &(dsl.to_string() + "\n"));
                    let fs = f.to_string_lossy().to_string();
                    let ys = year.map(|y| y.to_string());
                    let mut args = vec!["report", fs.as_str(), "--format", "json"];
                    if let Some(y) = &ys {
                        args.push("--year");
                        args.push(y);
                    }
                    let o = proc::run_cli(&sc, &args);
                    if !o.ok() {
                        return Err(Verdict::fail(format!("calculate_report succeeded but `cgt-tool report` failed: {}", o.describe())));
                    }
                    let mut cli: Value = serde_json::from_slice(&o.stdout).unwrap_or(Value::Null);
                    if let Some(m) = cli.as_object_mut() {
                        m.remove("transactions");
                    }
                    if cli != got {
                        return Err(Verdict::fail(format!("calculate_report differs from `cgt-tool report --format json` (minus transactions)\n{dsl}")));
                    }
                }
            }
            Req::ToDsl => {
                let want = cgt_core::dsl::transactions_to_dsl(&core);
                if text != want {
                    return Err(Verdict::fail(format!("convert_to_dsl differs from the library writer:\n{text}\n--- vs ---\n{want}")));
                }
            }
            Req::Fx { cur, year, month } => {
                let code = FX_CURS[*cur as usize % FX_CURS.len()].to_uppercase();
                let want = crate::fxtable::bundled().get(&(code.clone(), *year, *month));
                let got: Value = serde_json::from_str(&text).unwrap_or(Value::Null);
                let rate = got.get("rate").and_then(|x| x.as_str()).and_then(|x| x.parse::<rust_decimal::Decimal>().ok());
                if rate.as_ref() != want {
                    return Err(Verdict::fail(format!("get_fx_rate {code} {year}-{month:02}: {rate:?}, independent table has {want:?}")));
                }
                if got.get("currency").and_then(|x| x.as_str()) != Some(code.as_str()) || got.get("period").and_then(|x| x.as_str()) != Some(format!("{year}-{month:02}").as_str()) {
                    return Err(Verdict::fail(format!("get_fx_rate echo fields wrong: {got}")));
                }
            }
            _ => {}
        }
    }
    Ok(())
}

// ---------- concurrent sessions ----------

#[derive(Clone, Debug, Serialize, Deserialize)]
pub struct Many {
    pub sessions: Vec<Session>,
}

fn strat_many(t: Tier) -> BoxedStrategy<Many> {
    proptest::collection::vec(strat(t), 4..=8).prop_map(|sessions| Many { sessions }).boxed()
}

pub fn check_many(m: &Many, obs: &mut Obs) -> Verdict {
    obs.hash = crate::led::hash_str(&format!("{:?}", m.sessions.iter().map(|s| s.reqs.len()).collect::<Vec<_>>()));
    obs.nontrivial = true;
    obs.class(&format!("concurrent_sessions_{}", m.sessions.len()));
    if obs.sample.is_none() {
        obs.sample = Some(json!({"concurrent_sessions": m.sessions.len(), "requests_each": m.sessions.iter().map(|s| s.reqs.len()).collect::<Vec<_>>()}));
    }
    let results: Vec<Verdict> = std::thread::scope(|sc| {
        let hs: Vec<_> = m
            .sessions
            .iter()
            .map(|s| {
                sc.spawn(move || {
                    let mut o = Obs::default();
                    let mut s2 = s.clone();
                    s2.pipelined = true;
                    check(&s2, &mut o)
                })
            })
            .collect();
        hs.into_iter().map(|h| h.join().unwrap_or_else(|_| Verdict::fail("session thread panicked"))).collect()
    });
    let mut known = None;
    for v in results {
        match v {
            Verdict::Pass => {}
            Verdict::Known { finding, what } => known = Some(Verdict::Known { finding, what }),
            f => return f,
        }
    }
    known.unwrap_or(Verdict::Pass)
}

// ---------- undecodable envelope ----------

#[derive(Clone, Debug, Serialize, Deserialize)]
pub struct Envelope {
    pub before: u8,
    pub after: u8,
    pub kind: u8,
}

fn strat_env(_t: Tier) -> BoxedStrategy<Envelope> {
    (0u8..4, 1u8..4, 0u8..3).prop_map(|(before, after, kind)| Envelope { before, after, kind }).boxed()
}

/// A tools/call whose `params` is not an object is a request with an id like any other: it must
/// get an error response and must not stop later requests from being answered.
pub fn check_env(e: &Envelope, obs: &mut Obs) -> Verdict {
    obs.hash = crate::led::hash_str(&format!("{e:?}"));
    obs.nontrivial = true;
    let bad = match e.kind % 3 {
        0 => json!({"jsonrpc":"2.0","id":500,"method":"tools/call","params":"not an object"}),
        1 => json!({"jsonrpc":"2.0","id":500,"method":"tools/call","params":[1,2,3]}),
        _ => json!({"jsonrpc":"2.0","id":500,"method":"resources/read","params":7}),
    };
    if obs.sample.is_none() {
        obs.sample = Some(json!({"pings_before": e.before, "bad_request": bad, "pings_after": e.after}));
    }
    let mut m = Mcp::start(false);
    if !m.handshake() {
        proc::inconclusive("MCP handshake failed");
    }
    let mut ids_before = vec![];
    let mut ids_after = vec![];
    for i in 0..e.before {
        ids_before.push(100 + i as i64);
        m.send(&json!({"jsonrpc":"2.0","id":100 + i as i64,"method":"ping"}));
    }
    // earlier requests are answered before the bad one goes out (the server is known to drop
    // in-flight work when it stops; that race is part of the same finding, not a separate one)
    let mut got: Vec<i64> = vec![];
    let t0 = Instant::now();
    while got.len() < ids_before.len() && t0.elapsed() < Duration::from_secs(20) {
        if let Some(v) = m.recv(Duration::from_millis(300)) {
            if let Some(id) = v.get("id").and_then(|x| x.as_i64()) {
                got.push(id);
            }
        }
    }
    m.send(&bad);
    for i in 0..e.after {
        ids_after.push(200 + i as i64);
        m.send(&json!({"jsonrpc":"2.0","id":200 + i as i64,"method":"ping"}));
    }
    let deadline = Instant::now() + Duration::from_secs(4);
    while Instant::now() < deadline && got.len() < (e.before + e.after + 1) as usize {
        if let Some(v) = m.recv(Duration::from_millis(300)) {
            if let Some(id) = v.get("id").and_then(|x| x.as_i64()) {
                got.push(id);
            }
        }
    }
    let alive = m.is_alive();
    let (exit, _) = m.close(Duration::from_secs(20));
    let before_ok = ids_before.iter().all(|i| got.contains(i));
    let after_answered = ids_after.iter().filter(|i| got.contains(i)).count();
    let bad_answered = got.contains(&500);
    if bad_answered && after_answered == ids_after.len() && before_ok && exit == Some(0) {
        return Verdict::Pass;
    }
    let _ = alive;
    if before_ok && !bad_answered && after_answered == 0 && exit == Some(0) {
        return Verdict::Known {
            finding: "F16",
            what: "a request whose params is not a JSON object is never answered and ends request processing: the server stops (exit status 0) before its input is closed and every later request stays unanswered".into(),
        };
    }
    Verdict::fail(format!(
        "undecodable envelope {bad}: answered={bad_answered}, earlier pings answered={before_ok}, later pings answered {after_answered}/{}, alive before EOF={alive}, exit={exit:?}",
        ids_after.len()
    ))
}

fn run(ctx: &Ctx) {
    // sessions are process-bound; each case starts two servers
    let threads_note = "each case runs the session twice (pipelined/sequential as generated, then reversed one at a time)";
    let _ = threads_note;
    ctx.shrink_iters.store(10, std::sync::atomic::Ordering::Relaxed);
    if !ctx.run_prop("sessions", RULE, ctx.cases(5, 600), strat, check) {
        return;
    }
    if !ctx.run_prop("undecodable_envelope", "sessions of pings around one tools/call or resources/read whose params is a string, an array or a number (valid JSON with an id); it must be answered with an error and later requests must still be answered; non-trivial = every case", ctx.cases(1, 24), strat_env, check_env) {
        return;
    }
    ctx.run_prop("concurrent_sessions", "4-8 generated sessions run at the same time, all pipelined, each judged like a single session; non-trivial = every case", ctx.cases(1, 40), strat_many, check_many);
}

fn replay(name: &str, case: &Value) -> Option<Verdict> {
    match name {
        "sessions" => Some(replay_case::<Session, _>(case, check).unwrap_or_else(Verdict::Fail)),
        "concurrent_sessions" => Some(replay_case::<Many, _>(case, check_many).unwrap_or_else(Verdict::Fail)),
        "undecodable_envelope" => Some(replay_case::<Envelope, _>(case, check_env).unwrap_or_else(Verdict::Fail)),
        _ => None,
    }
}
