//! Process drivers: the real `cgt-tool` binary (built from /repo's working tree by ./check)
//! for CLI runs and for MCP sessions over stdio (line-delimited JSON-RPC).

use serde_json::{json, Value};
use std::io::{BufRead, BufReader, Read, Write};
use std::path::{Path, PathBuf};
use std::process::{Child, ChildStdin, Command, Stdio};
use std::sync::atomic::{AtomicU64, Ordering};
use std::sync::mpsc::{channel, Receiver, RecvTimeoutError};
use std::time::{Duration, Instant};

pub fn cli() -> String {
    format!("{}/repo/release/cgt-tool", crate::runner::target_dir())
}
pub const CHILD_TIMEOUT: Duration = Duration::from_secs(60);

static COUNTER: AtomicU64 = AtomicU64::new(0);

pub fn cli_available() -> bool {
    Path::new(&cli()).exists()
}

/// Inconclusive exit (never a violation): infrastructure problems, watchdog.
pub fn inconclusive(msg: &str) -> ! {
    eprintln!("INCONCLUSIVE: {msg}");
    std::process::exit(2);
}

pub struct Scratch {
    pub dir: PathBuf,
}

impl Scratch {
    pub fn new(label: &str) -> Scratch {
        let n = COUNTER.fetch_add(1, Ordering::SeqCst);
        let dir = PathBuf::from(format!("{}/scratch/{}-{}-{}", crate::runner::target_dir(), std::process::id(), label, n));
        let _ = std::fs::remove_dir_all(&dir);
        if let Err(e) = std::fs::create_dir_all(dir.join("home")) {
            inconclusive(&format!("cannot create scratch dir {}: {e}", dir.display()));
        }
        Scratch { dir }
    }
    pub fn path(&self, name: &str) -> PathBuf {
        self.dir.join(name)
    }
    pub fn write(&self, name: &str, content: &str) -> PathBuf {
        let p = self.path(name);
        if let Some(parent) = p.parent() {
            let _ = std::fs::create_dir_all(parent);
        }
        if let Err(e) = std::fs::write(&p, content) {
            inconclusive(&format!("cannot write {}: {e}", p.display()));
        }
        p
    }
    pub fn home(&self) -> PathBuf {
        self.dir.join("home")
    }
    /// config.toml in the working directory with an exemption for every year 1900..=2100
    pub fn write_all_years_config(&self) {
        let mut s = String::from("[exemptions]\n");
        for y in 1900u16..=2100 {
            s.push_str(&format!("\"{}\" = {}\n", y, crate::tool::all_years_exemption(y)));
        }
        self.write("config.toml", &s);
    }
}

impl Drop for Scratch {
    fn drop(&mut self) {
        let _ = std::fs::remove_dir_all(&self.dir);
    }
}

#[derive(Debug, Clone)]
pub struct CliOut {
    pub code: Option<i32>,
    pub signal: Option<i32>,
    pub stdout: Vec<u8>,
    pub stderr: Vec<u8>,
}

impl CliOut {
    pub fn stdout_s(&self) -> String {
        String::from_utf8_lossy(&self.stdout).into_owned()
    }
    pub fn stderr_s(&self) -> String {
        String::from_utf8_lossy(&self.stderr).into_owned()
    }
    pub fn ok(&self) -> bool {
        self.code == Some(0)
    }
    pub fn describe(&self) -> String {
        format!("exit={:?} signal={:?} stdout={}B stderr='{}'", self.code, self.signal, self.stdout.len(), self.stderr_s().chars().take(300).collect::<String>())
    }
}

pub fn run_cli(sc: &Scratch, args: &[&str]) -> CliOut {
    run_cli_in(sc, &sc.dir, args)
}

pub fn run_cli_in(sc: &Scratch, cwd: &Path, args: &[&str]) -> CliOut {
    run_cli_with(sc, cwd, args, false)
}

/// Standard output connected to /dev/full: every write to it fails with ENOSPC.
pub fn run_cli_stdout_unwritable(sc: &Scratch, args: &[&str]) -> CliOut {
    run_cli_with(sc, &sc.dir, args, true)
}

/// Standard error connected to /dev/full.
pub fn run_cli_stderr_unwritable(sc: &Scratch, args: &[&str]) -> CliOut {
    if !cli_available() {
        inconclusive(&format!("{} not built", cli()));
    }
    let err = match std::fs::OpenOptions::new().write(true).open("/dev/full") {
        Ok(f) => Stdio::from(f),
        Err(e) => inconclusive(&format!("cannot open /dev/full: {e}")),
    };
    let out = match Command::new(cli()).args(args).current_dir(&sc.dir).env("HOME", sc.home()).env_remove("XDG_CONFIG_HOME").env_remove("RUST_BACKTRACE").stdin(Stdio::null()).stdout(Stdio::piped()).stderr(err).spawn() {
        Ok(c) => c.wait_with_output(),
        Err(e) => inconclusive(&format!("cannot spawn cgt-tool: {e}")),
    };
    match out {
        Ok(o) => {
            use std::os::unix::process::ExitStatusExt;
            CliOut { code: o.status.code(), signal: o.status.signal(), stdout: o.stdout, stderr: vec![] }
        }
        Err(e) => inconclusive(&format!("wait failed: {e}")),
    }
}

fn run_cli_with(sc: &Scratch, cwd: &Path, args: &[&str], stdout_full: bool) -> CliOut {
    if !cli_available() {
        inconclusive(&format!("{} not built", cli()));
    }
    let out = if stdout_full {
        match std::fs::OpenOptions::new().write(true).open("/dev/full") {
            Ok(f) => Stdio::from(f),
            Err(e) => inconclusive(&format!("cannot open /dev/full: {e}")),
        }
    } else {
        Stdio::piped()
    };
    let mut child = match Command::new(cli())
        .args(args)
        .current_dir(cwd)
        .env("HOME", sc.home()).env_remove("XDG_CONFIG_HOME")
        .env_remove("RUST_BACKTRACE")
        .stdin(Stdio::null())
        .stdout(out)
        .stderr(Stdio::piped())
        .spawn()
    {
        Ok(c) => c,
        Err(e) => inconclusive(&format!("cannot spawn cgt-tool: {e}")),
    };
    let so = child.stdout.take();
    let mut se = child.stderr.take().expect("stderr");
    let t1 = std::thread::spawn(move || {
        let mut b = vec![];
        if let Some(mut so) = so {
            let _ = so.read_to_end(&mut b);
        }
        b
    });
    let t2 = std::thread::spawn(move || {
        let mut b = vec![];
        let _ = se.read_to_end(&mut b);
        b
    });
    let start = Instant::now();
    let status = loop {
        match child.try_wait() {
            Ok(Some(s)) => break s,
            Ok(None) => {
                if start.elapsed() > CHILD_TIMEOUT {
                    let _ = child.kill();
                    inconclusive(&format!("cgt-tool {:?} exceeded the {}s watchdog", args, CHILD_TIMEOUT.as_secs()));
                }
                std::thread::sleep(Duration::from_millis(2));
            }
            Err(e) => inconclusive(&format!("wait failed: {e}")),
        }
    };
    use std::os::unix::process::ExitStatusExt;
    CliOut { code: status.code(), signal: status.signal(), stdout: t1.join().unwrap_or_default(), stderr: t2.join().unwrap_or_default() }
}

// ---------------- MCP ----------------

pub struct Mcp {
    child: Child,
    stdin: Option<ChildStdin>,
    rx: Receiver<String>,
    pub stderr_rx: Receiver<String>,
    _sc: Scratch,
}

impl Mcp {
    /// Start `cgt-tool mcp` in a scratch directory (all-years config if `all_years`).
    pub fn start(all_years: bool) -> Mcp {
        if !cli_available() {
            inconclusive(&format!("{} not built", cli()));
        }
        let sc = Scratch::new("mcp");
        if all_years {
            sc.write_all_years_config();
        }
        let mut child = match Command::new(cli())
            .arg("mcp")
            .current_dir(&sc.dir)
            .env("HOME", sc.home()).env_remove("XDG_CONFIG_HOME")
            .stdin(Stdio::piped())
            .stdout(Stdio::piped())
            .stderr(Stdio::piped())
            .spawn()
        {
            Ok(c) => c,
            Err(e) => inconclusive(&format!("cannot spawn cgt-tool mcp: {e}")),
        };
        let stdin = child.stdin.take();
        let out = child.stdout.take().expect("stdout");
        let err = child.stderr.take().expect("stderr");
        let (tx, rx) = channel();
        std::thread::spawn(move || {
            for line in BufReader::new(out).lines() {
                match line {
                    Ok(l) => {
                        if tx.send(l).is_err() {
                            break;
                        }
                    }
                    Err(_) => break,
                }
            }
        });
        let (etx, stderr_rx) = channel();
        std::thread::spawn(move || {
            for line in BufReader::new(err).lines().map_while(Result::ok) {
                if etx.send(line).is_err() {
                    break;
                }
            }
        });
        Mcp { child, stdin, rx, stderr_rx, _sc: sc }
    }

    pub fn send_raw(&mut self, line: &str) -> bool {
        match self.stdin.as_mut() {
            Some(s) => s.write_all(line.as_bytes()).and_then(|_| s.write_all(b"\n")).and_then(|_| s.flush()).is_ok(),
            None => false,
        }
    }
    pub fn send(&mut self, v: &Value) -> bool {
        self.send_raw(&v.to_string())
    }
    /// Send many lines in one write (pipelined).
    pub fn send_batch(&mut self, vs: &[Value]) -> bool {
        let mut buf = String::new();
        for v in vs {
            buf.push_str(&v.to_string());
            buf.push('\n');
        }
        match self.stdin.as_mut() {
            Some(s) => s.write_all(buf.as_bytes()).and_then(|_| s.flush()).is_ok(),
            None => false,
        }
    }
    pub fn recv(&mut self, timeout: Duration) -> Option<Value> {
        match self.rx.recv_timeout(timeout) {
            Ok(l) => serde_json::from_str(&l).ok().or(Some(Value::String(l))),
            Err(RecvTimeoutError::Timeout) | Err(RecvTimeoutError::Disconnected) => None,
        }
    }
    /// Standard handshake; returns false if the server did not answer.
    pub fn handshake(&mut self) -> bool {
        let init = json!({"jsonrpc":"2.0","id":0,"method":"initialize","params":{"protocolVersion":"2024-11-05","capabilities":{},"clientInfo":{"name":"cgtverif","version":"0"}}});
        if !self.send(&init) {
            return false;
        }
        let Some(r) = self.recv(Duration::from_secs(30)) else { return false };
        if r.get("id") != Some(&json!(0)) || r.get("result").is_none() {
            return false;
        }
        self.send(&json!({"jsonrpc":"2.0","method":"notifications/initialized"}))
    }
    pub fn is_alive(&mut self) -> bool {
        matches!(self.child.try_wait(), Ok(None))
    }
    /// Close stdin and wait for exit; returns exit code (None = killed by watchdog/signal).
    pub fn close(mut self, timeout: Duration) -> (Option<i32>, Vec<Value>) {
        self.stdin = None;
        let start = Instant::now();
        let mut rest = vec![];
        let code = loop {
            while let Ok(l) = self.rx.try_recv() {
                rest.push(serde_json::from_str(&l).unwrap_or(Value::String(l)));
            }
            match self.child.try_wait() {
                Ok(Some(s)) => break s.code(),
                Ok(None) => {
                    if start.elapsed() > timeout {
                        let _ = self.child.kill();
                        let _ = self.child.wait();
                        break None;
                    }
                    std::thread::sleep(Duration::from_millis(5));
                }
                Err(_) => break None,
            }
        };
        std::thread::sleep(Duration::from_millis(5));
        while let Ok(l) = self.rx.try_recv() {
            rest.push(serde_json::from_str(&l).unwrap_or(Value::String(l)));
        }
        (code, rest)
    }
}

impl Drop for Mcp {
    fn drop(&mut self) {
        self.stdin = None;
        let _ = self.child.kill();
        let _ = self.child.wait();
    }
}

pub fn tool_call(id: i64, name: &str, args: Value) -> Value {
    json!({"jsonrpc":"2.0","id":id,"method":"tools/call","params":{"name":name,"arguments":args}})
}

/// Text content of a successful tools/call response, or the error message.
pub fn tool_text(resp: &Value) -> Result<String, String> {
    if let Some(e) = resp.get("error") {
        return Err(e.get("message").and_then(|m| m.as_str()).unwrap_or("").to_string());
    }
    let r = resp.get("result").ok_or_else(|| "no result".to_string())?;
    if r.get("isError").and_then(|b| b.as_bool()).unwrap_or(false) {
        return Err(r.to_string());
    }
    r.pointer("/content/0/text").and_then(|t| t.as_str()).map(String::from).ok_or_else(|| format!("unexpected result shape: {r}"))
}
