//! Entry points for the coverage-guided (libFuzzer) targets under /verif/fuzz and for replaying
//! their artifacts. The semantic oracles are the same functions the proptest checks use.

use crate::lgen::{self, ActRaw, DayRaw, GenCfg, Recipe, SplitMode};
use crate::runner::{KnownFindings, Obs, Verdict};
use std::sync::OnceLock;

pub enum FuzzOutcome {
    Ok,
    Known(String),
    Fail(String),
}

fn known() -> &'static KnownFindings {
    static K: OnceLock<KnownFindings> = OnceLock::new();
    K.get_or_init(KnownFindings::load)
}

fn resolve(props: &[&str], v: Verdict) -> FuzzOutcome {
    match v {
        Verdict::Pass => FuzzOutcome::Ok,
        Verdict::Fail(m) => FuzzOutcome::Fail(m),
        Verdict::Known { finding, what } => {
            if props.iter().any(|p| known().is_open(finding, p)) {
                FuzzOutcome::Known(finding.to_string())
            } else {
                FuzzOutcome::Fail(format!("[{finding} not listed as open] {what}"))
            }
        }
    }
}

struct Reader<'a> {
    d: &'a [u8],
    i: usize,
}
impl<'a> Reader<'a> {
    fn u8(&mut self) -> u8 {
        let v = self.d.get(self.i).copied().unwrap_or(0);
        self.i += 1;
        v
    }
    fn u16(&mut self) -> u16 {
        u16::from_le_bytes([self.u8(), self.u8()])
    }
    fn left(&self) -> usize {
        self.d.len().saturating_sub(self.i)
    }
}

/// bytes -> recipe (structured decoding, so libFuzzer mutates ledger structure, not syntax)
pub fn recipe_from_bytes(data: &[u8], max_secs: u8) -> Recipe {
    let mut r = Reader { d: data, i: 0 };
    let anchor = r.u8() % 12;
    let pre = r.u8() % 6;
    let year = 1901 + (r.u16() % 195);
    let nsec = 1 + r.u8() % max_secs.max(1);
    let mut days = vec![];
    while r.left() >= 20 && days.len() < 24 {
        let gap = r.u8() % 16;
        let nacts = 1 + (r.u8() % 3) as usize;
        let mut acts = vec![];
        for _ in 0..nacts {
            if r.left() < 18 {
                break;
            }
            let sec = r.u8() % nsec;
            let kind = r.u8() % 100;
            let mut v = [0u16; 8];
            for x in v.iter_mut() {
                *x = r.u16();
            }
            acts.push(ActRaw { sec, kind, v });
        }
        if !acts.is_empty() {
            days.push(DayRaw { gap, acts });
        }
    }
    Recipe { anchor, pre, year, nsec, days, perm: vec![] }
}

/// ledger target: C01 (model), C02, C03, and C05 on a derived broken variant
pub fn fuzz_ledger(data: &[u8]) -> FuzzOutcome {
    if data.len() < 8 {
        return FuzzOutcome::Ok;
    }
    let mode = data[0] % 4;
    let cfg = match mode {
        0 => GenCfg::basic().secs(2).days(1, 40),
        1 => GenCfg::basic().secs(3).days(1, 40).splits(SplitMode::Terminating),
        2 => GenCfg::basic().secs(2).days(1, 40).splits(SplitMode::Residue),
        _ => GenCfg::basic().secs(2).days(1, 40).splits(SplitMode::Terminating).events(true).dividends(true),
    };
    let recipe = recipe_from_bytes(&data[1..], cfg.max_secs);
    let gl = lgen::build(&recipe, &cfg);
    // model-compared strata are bounded to magnitudes <= 1e9 (DESIGN section 5); repeated splits in a
    // decoded recipe can leave that range (and reach finding F7, which belongs to C15)
    let big = rust_decimal::Decimal::from(1_000_000_000i64);
    if gl.ledger.iter().any(|t| match &t.op {
        crate::led::Op::Buy { q, .. } | crate::led::Op::Sell { q, .. } => *q > big,
        _ => false,
    }) {
        return FuzzOutcome::Ok;
    }
    let mut obs = Obs::default();
    for (props, v) in [
        (&["C01"][..], crate::props::c01::check(&gl, &mut obs)),
        (&["C02"][..], crate::props::c02::check(&gl, &mut obs)),
        (&["C03"][..], crate::props::c03::check(&gl, &mut obs)),
    ] {
        match resolve(props, v) {
            FuzzOutcome::Ok | FuzzOutcome::Known(_) => {}
            f => return f,
        }
    }
    let case = crate::props::c05::Case { base: gl, mutation: data[1] % 7, idx: u16::from_le_bytes([data[2], data[3]]) };
    resolve(&["C05"], crate::props::c05::check(&case, &mut obs))
}

/// text target: C13 (whatever parses is complete and re-serialisable) + C15 (no crash, clean error)
pub fn fuzz_dsl_text(data: &[u8]) -> FuzzOutcome {
    let Ok(text) = std::str::from_utf8(data) else { return FuzzOutcome::Ok };
    let mut obs = Obs::default();
    match resolve(&["C13"], crate::props::c13::check_text_oracle(text, &mut obs)) {
        FuzzOutcome::Ok | FuzzOutcome::Known(_) => {}
        f => return f,
    }
    resolve(&["C15"], crate::props::c15::check_text(&crate::props::c15::TextCase { text: text.to_string() }, &mut obs))
}

/// converter target: arbitrary JSON text through the Schwab converter (C15), awards = second half
pub fn fuzz_schwab(data: &[u8]) -> FuzzOutcome {
    let Ok(text) = std::str::from_utf8(data) else { return FuzzOutcome::Ok };
    let (tx, aw) = match text.split_once("\n====\n") {
        Some((a, b)) => (a.to_string(), Some(b.to_string())),
        None => (text.to_string(), None),
    };
    let mut obs = Obs::default();
    resolve(&["C15"], crate::props::c15::check_conv(&crate::props::c15::ConvCase { transactions: tx, awards: aw }, &mut obs))
}

pub fn run_target(target: &str, data: &[u8]) -> Option<FuzzOutcome> {
    match target {
        "ledger" => Some(fuzz_ledger(data)),
        "dsl_text" => Some(fuzz_dsl_text(data)),
        "schwab_json" => Some(fuzz_schwab(data)),
        _ => None,
    }
}

/// called from the fuzz targets: a failure of the semantic oracle aborts, so libFuzzer saves the input
pub fn assert_target(target: &str, data: &[u8]) {
    crate::tool::install_panic_hook();
    if let Some(FuzzOutcome::Fail(m)) = run_target(target, data) {
        eprintln!("ORACLE FAILURE in fuzz target {target}: {m}");
        std::process::abort();
    }
}
