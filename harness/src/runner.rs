//! Shared driver: runs proptest strategies from the binary on N threads with fixed seeds,
//! collects coverage statistics, attributes failures to known findings, shrinks,
//! writes replay and evidence files.

use proptest::strategy::{BoxedStrategy, Strategy};
use proptest::test_runner::{Config, RngSeed, TestCaseError, TestError, TestRunner};
use serde::de::DeserializeOwned;
use serde::Serialize;
use serde_json::{json, Value};
use std::collections::{BTreeMap, BTreeSet, HashSet};
use std::sync::atomic::{AtomicBool, Ordering};
use std::sync::Mutex;
use std::time::Instant;

/// The repository under test: /repo, or $VERIF_REPO for sensitivity runs on a scratch worktree.
pub fn repo_dir() -> String {
    std::env::var("VERIF_REPO").ok().filter(|s| !s.is_empty()).unwrap_or_else(|| "/repo".to_string())
}

/// Build-output root: <verif>/target, or $VERIF_TARGET (scratch-worktree runs keep their own).
pub fn target_dir() -> String {
    std::env::var("VERIF_TARGET").ok().filter(|s| !s.is_empty()).unwrap_or_else(|| format!("{}/target", verif_dir()))
}

/// Where evidence and replay files go: <verif>/evidence and <verif>/replays, or below
/// $VERIF_OUT for scratch-worktree runs (so they never replace the real ones).
pub fn out_dir(kind: &str) -> String {
    match std::env::var("VERIF_OUT").ok().filter(|s| !s.is_empty()) {
        Some(o) => format!("{o}/{kind}"),
        None => format!("{}/{kind}", verif_dir()),
    }
}

/// Root of the verification tree: /verif, or $VERIF_HOME when ./check runs from a snapshot copy.
pub fn verif_dir() -> String {
    std::env::var("VERIF_HOME").ok().filter(|s| !s.is_empty()).unwrap_or_else(|| "/verif".to_string())
}

#[derive(Clone, Copy, Debug, PartialEq, Eq)]
pub enum Tier {
    Quick,
    Thorough,
}

impl Tier {
    pub fn name(&self) -> &'static str {
        match self {
            Tier::Quick => "quick",
            Tier::Thorough => "thorough",
        }
    }
    pub fn pick<T>(&self, q: T, t: T) -> T {
        match self {
            Tier::Quick => q,
            Tier::Thorough => t,
        }
    }
}

/// What the oracle observed about one case.
#[derive(Default, Debug)]
pub struct Obs {
    pub nontrivial: bool,
    pub hash: u64,
    pub classes: Vec<String>,
    pub sample: Option<Value>,
    pub exact_cmp: u64,
    pub tol_cmp: u64,
    pub excluded: u64,
}

impl Obs {
    pub fn class(&mut self, c: &str) {
        self.classes.push(c.to_string());
    }
    pub fn class_if(&mut self, cond: bool, c: &str) {
        if cond {
            self.class(c);
        }
    }
}

pub enum Verdict {
    Pass,
    /// The property fails on this case exactly in the way a listed known finding describes.
    Known { finding: &'static str, what: String },
    Fail(String),
}

impl Verdict {
    pub fn fail<S: Into<String>>(s: S) -> Verdict {
        Verdict::Fail(s.into())
    }
    pub fn is_pass(&self) -> bool {
        matches!(self, Verdict::Pass)
    }
}

#[macro_export]
macro_rules! vfail {
    ($($arg:tt)*) => { return $crate::runner::Verdict::Fail(format!($($arg)*)) };
}

#[macro_export]
macro_rules! vtry {
    ($e:expr) => {
        match $e {
            $crate::runner::Verdict::Pass => {}
            other => return other,
        }
    };
}

#[derive(Default)]
pub struct Stats {
    pub evaluations: u64,
    pub nontrivial: HashSet<u64>,
    pub distinct: HashSet<u64>,
    pub classes: BTreeMap<String, u64>,
    pub samples: Vec<Value>,
    pub nt_samples: Vec<Value>,
    pub known_seen: BTreeMap<String, (u64, String)>,
    pub exact_cmp: u64,
    pub tol_cmp: u64,
    pub excluded: u64,
}

impl Stats {
    fn absorb_obs(&mut self, o: Obs) {
        self.evaluations += 1;
        self.distinct.insert(o.hash);
        if o.nontrivial {
            let fresh = self.nontrivial.insert(o.hash);
            if fresh && self.nt_samples.len() < 3 {
                if let Some(s) = &o.sample {
                    self.nt_samples.push(s.clone());
                }
            }
        }
        for c in o.classes {
            *self.classes.entry(c).or_insert(0) += 1;
        }
        if self.samples.len() < 2 {
            if let Some(s) = o.sample {
                self.samples.push(s);
            }
        }
        self.exact_cmp += o.exact_cmp;
        self.tol_cmp += o.tol_cmp;
        self.excluded += o.excluded;
    }
    pub fn merge(&mut self, o: Stats) {
        self.evaluations += o.evaluations;
        self.nontrivial.extend(o.nontrivial);
        self.distinct.extend(o.distinct);
        for (k, v) in o.classes {
            *self.classes.entry(k).or_insert(0) += v;
        }
        for s in o.samples {
            if self.samples.len() < 3 {
                self.samples.push(s);
            }
        }
        for s in o.nt_samples {
            if self.nt_samples.len() < 4 {
                self.nt_samples.push(s);
            }
        }
        for (k, (n, w)) in o.known_seen {
            let e = self.known_seen.entry(k).or_insert((0, w));
            e.0 += n;
        }
        self.exact_cmp += o.exact_cmp;
        self.tol_cmp += o.tol_cmp;
        self.excluded += o.excluded;
    }
}

/// Known findings file (committed, read-only at run time).
#[derive(Clone, Debug)]
pub struct KnownFindings {
    /// finding id -> (properties, what)
    open: BTreeMap<String, (BTreeSet<String>, String)>,
}

impl KnownFindings {
    pub fn load() -> KnownFindings {
        let path = format!("{}/known_findings.json", verif_dir());
        let mut open = BTreeMap::new();
        if let Ok(s) = std::fs::read_to_string(&path) {
            if let Ok(v) = serde_json::from_str::<Value>(&s) {
                if let Some(arr) = v.get("findings").and_then(|x| x.as_array()) {
                    for f in arr {
                        let status = f.get("status").and_then(|x| x.as_str()).unwrap_or("open");
                        if status != "open" {
                            continue;
                        }
                        let id = f.get("id").and_then(|x| x.as_str()).unwrap_or("").to_string();
                        let props: BTreeSet<String> = f
                            .get("properties")
                            .and_then(|x| x.as_array())
                            .map(|a| a.iter().filter_map(|p| p.as_str().map(String::from)).collect())
                            .unwrap_or_default();
                        let what = f.get("what").and_then(|x| x.as_str()).unwrap_or("").to_string();
                        if !id.is_empty() {
                            open.insert(id, (props, what));
                        }
                    }
                }
            }
        }
        KnownFindings { open }
    }
    pub fn is_open(&self, finding: &str, property: &str) -> bool {
        self.open.get(finding).map(|(p, _)| p.contains(property)).unwrap_or(false)
    }
    pub fn what(&self, finding: &str) -> String {
        self.open.get(finding).map(|(_, w)| w.clone()).unwrap_or_default()
    }
}

pub struct Ctx {
    pub property: String,
    pub tier: Tier,
    pub seed: u64,
    pub threads: usize,
    pub known: KnownFindings,
    pub start: Instant,
    pub sub: Mutex<Vec<SubReport>>,
    pub violated: AtomicBool,
    pub scale: f64,
    /// upper bound on shrink iterations for the next run_prop calls (process-level checks lower it)
    pub shrink_iters: std::sync::atomic::AtomicU32,
}

pub struct SubReport {
    pub name: String,
    pub stats: Stats,
    pub rule: String,
    pub exhaustive: bool,
    pub wall_s: f64,
}

pub fn splitmix(mut x: u64) -> u64 {
    x = x.wrapping_add(0x9E3779B97F4A7C15);
    let mut z = x;
    z = (z ^ (z >> 30)).wrapping_mul(0xBF58476D1CE4E5B9);
    z = (z ^ (z >> 27)).wrapping_mul(0x94D049BB133111EB);
    z ^ (z >> 31)
}

pub fn seed_for(base: u64, name: &str, idx: u64) -> u64 {
    let mut h = splitmix(base ^ 0x5151_7ea1_0000_0001);
    for b in name.as_bytes() {
        h = splitmix(h ^ (*b as u64));
    }
    splitmix(h ^ idx.wrapping_mul(0x1000_0000_01b3))
}

impl Ctx {
    pub fn new(property: &str, tier: Tier) -> Ctx {
        let seed_env = std::env::var("VERIF_SEED").ok().and_then(|s| s.trim().parse::<i128>().ok()).unwrap_or(0);
        let mut seed = (seed_env as u64) ^ 0;
        if seed == 0 {
            seed = 0x00C6_7700_1F5E_ED01;
        }
        let threads = std::env::var("VERIF_THREADS")
            .ok()
            .and_then(|s| s.parse().ok())
            .unwrap_or_else(|| std::thread::available_parallelism().map(|n| n.get()).unwrap_or(8).min(16));
        let scale = std::env::var("VERIF_SCALE").ok().and_then(|s| s.parse().ok()).unwrap_or(1.0);
        Ctx {
            property: property.to_string(),
            tier,
            seed,
            threads,
            known: KnownFindings::load(),
            start: Instant::now(),
            sub: Mutex::new(vec![]),
            violated: AtomicBool::new(false),
            scale,
            shrink_iters: std::sync::atomic::AtomicU32::new(4000),
        }
    }
    pub fn seed_env(&self) -> i64 {
        std::env::var("VERIF_SEED").ok().and_then(|s| s.trim().parse::<i64>().ok()).unwrap_or(0)
    }
    pub fn cases(&self, quick: u32, thorough: u32) -> u32 {
        // quick case counts in the property modules are per-unit; the quick tier runs 8 units
        let base = match self.tier {
            Tier::Quick => quick as f64 * 8.0,
            Tier::Thorough => thorough as f64,
        };
        (base * self.scale).max(1.0) as u32
    }

    /// Resolve a verdict against the known-findings file: a Known verdict whose finding is not
    /// listed (or is marked fixed) for this property is a failure.
    pub fn resolve(&self, v: Verdict) -> Verdict {
        match v {
            Verdict::Known { finding, what } => {
                if self.known.is_open(finding, &self.property) {
                    Verdict::Known { finding, what }
                } else {
                    Verdict::Fail(format!("[{finding} not listed as open for {}] {what}", self.property))
                }
            }
            o => o,
        }
    }

    /// Run one generated check on `threads` runners. Returns false if a violation was found
    /// (in which case the replay file has been written and the VIOLATION line printed).
    pub fn run_prop<C, F>(
        &self,
        name: &str,
        rule: &str,
        total_cases: u32,
        make: fn(Tier) -> BoxedStrategy<C>,
        check: F,
    ) -> bool
    where
        C: std::fmt::Debug + Clone + Serialize + Send + 'static,
        F: Fn(&C, &mut Obs) -> Verdict + Sync,
    {
        let t0 = Instant::now();
        let threads = self.threads.max(1).min(total_cases.max(1) as usize);
        let per = (total_cases as usize).div_ceil(threads) as u32;
        let failure: Mutex<Option<(String, C)>> = Mutex::new(None);
        let merged: Mutex<Stats> = Mutex::new(Stats::default());
        let stop = AtomicBool::new(false);
        std::thread::scope(|sc| {
            for ti in 0..threads {
                let failure = &failure;
                let merged = &merged;
                let stop = &stop;
                let check = &check;
                let tier = self.tier;
                let seed = seed_for(self.seed, name, ti as u64);
                sc.spawn(move || {
                    let cfg = Config {
                        cases: per,
                        failure_persistence: None,
                        rng_seed: RngSeed::Fixed(seed),
                        max_shrink_iters: self.shrink_iters.load(Ordering::Relaxed),
                        max_global_rejects: 1_000_000,
                        verbose: 0,
                        ..Config::default()
                    };
                    let mut runner = TestRunner::new(cfg);
                    let strat = make(tier);
                    let mut stats = Stats::default();
                    let failed = std::cell::Cell::new(false);
                    let stats_cell = std::cell::RefCell::new(&mut stats);
                    let res = runner.run(&strat, |c| {
                        if stop.load(Ordering::Relaxed) && !failed.get() {
                            // another thread found a failure; finish quickly
                            return Ok(());
                        }
                        let mut obs = Obs::default();
                        // a panic that escapes the oracle is a harness defect, never a violation
                        let raw = match std::panic::catch_unwind(std::panic::AssertUnwindSafe(|| check(&c, &mut obs))) {
                            Ok(v) => v,
                            Err(_) => {
                                eprintln!("INCONCLUSIVE: {name}: the harness itself panicked while checking {c:?}");
                                std::process::exit(2);
                            }
                        };
                        let v = self.resolve(raw);
                        match v {
                            Verdict::Pass => {
                                if !failed.get() {
                                    stats_cell.borrow_mut().absorb_obs(obs);
                                }
                                Ok(())
                            }
                            Verdict::Known { finding, what } => {
                                if !failed.get() {
                                    self.maybe_dump_known(name, finding, &c);
                                    let mut st = stats_cell.borrow_mut();
                                    st.absorb_obs(obs);
                                    let e = st.known_seen.entry(finding.to_string()).or_insert((0, what));
                                    e.0 += 1;
                                }
                                Ok(())
                            }
                            Verdict::Fail(msg) => {
                                failed.set(true);
                                stop.store(true, Ordering::Relaxed);
                                Err(TestCaseError::fail(msg))
                            }
                        }
                    });
                    drop(stats_cell);
                    match res {
                        Ok(()) => {}
                        Err(TestError::Fail(reason, value)) => {
                            let mut f = failure.lock().unwrap();
                            if f.is_none() {
                                *f = Some((reason.message().to_string(), value));
                            }
                        }
                        Err(TestError::Abort(reason)) => {
                            eprintln!("INCONCLUSIVE: {name}: generator aborted: {}", reason.message());
                            std::process::exit(2);
                        }
                    }
                    merged.lock().unwrap().merge(stats);
                });
            }
        });
        let stats = merged.into_inner().unwrap();
        let fail = failure.into_inner().unwrap();
        self.sub.lock().unwrap().push(SubReport {
            name: name.to_string(),
            stats,
            rule: rule.to_string(),
            exhaustive: false,
            wall_s: t0.elapsed().as_secs_f64(),
        });
        if let Some((reason, value)) = fail {
            // re-check the shrunk case with the plain oracle (no proptest involved)
            // (up to three attempts: with concurrent deliveries a genuine failure need not show
            // on every run; a case that never fails again is reported as inconclusive)
            let mut again = Verdict::Pass;
            for _ in 0..3 {
                let mut obs = Obs::default();
                again = self.resolve(check(&value, &mut obs));
                if matches!(again, Verdict::Fail(_)) {
                    break;
                }
            }
            let confirmed = matches!(again, Verdict::Fail(_));
            let reason2 = match again {
                Verdict::Fail(m) => m,
                _ => reason.clone(),
            };
            if !confirmed {
                eprintln!(
                    "INCONCLUSIVE: {name}: shrunk case did not reproduce with the plain oracle (flaky?): {reason}"
                );
                std::process::exit(2);
            }
            self.report_violation(name, &serde_json::to_value(&value).unwrap_or(Value::Null), &reason2);
            return false;
        }
        true
    }


    /// Run a coverage-guided libFuzzer campaign on `target` (binaries built by ./check under
    /// /verif/target/fuzz): `procs` processes with seeds derived from VERIF_SEED, fresh corpus
    /// directories, the committed seed corpus as second directory, `runs_each` executions each.
    /// The semantic oracle lives inside the target; a crash artifact becomes the replay file.
    pub fn run_fuzz(&self, name: &str, target: &str, runs_each: u64, max_len: u32, rule: &str) -> bool {
        let t0 = Instant::now();
        let bin = format!("{}/fuzz/x86_64-unknown-linux-gnu/release/{target}", target_dir());
        if !std::path::Path::new(&bin).exists() {
            eprintln!("INCONCLUSIVE: fuzz target {bin} not built");
            std::process::exit(2);
        }
        let procs = self.threads.clamp(1, 8);
        let art = format!("{}/", out_dir("replays"));
        let _ = std::fs::create_dir_all(&art);
        let mut children = vec![];
        for i in 0..procs {
            let corpus = format!("{}/fuzzcorpus/{}-{}-{}-{}", target_dir(), self.property, target, self.seed_env(), i);
            let _ = std::fs::remove_dir_all(&corpus);
            let _ = std::fs::create_dir_all(&corpus);
            let seed = (seed_for(self.seed, name, i as u64) % 0xffff_fffe) + 1;
            let child = std::process::Command::new(&bin)
                .arg(format!("-runs={runs_each}"))
                .arg(format!("-seed={seed}"))
                .arg("-len_control=0")
                .arg(format!("-max_len={max_len}"))
                .arg("-timeout=60")
                .arg("-max_total_time=1500")
                .arg("-print_final_stats=1")
                .arg(format!("-artifact_prefix={art}fuzz-{target}-"))
                .arg(&corpus)
                .arg(format!("{}/fuzz/seeds/{target}", verif_dir()))
                .current_dir(target_dir())
                .stdin(std::process::Stdio::null())
                .stdout(std::process::Stdio::null())
                .stderr(std::process::Stdio::piped())
                .spawn();
            match child {
                Ok(mut c) => {
                    // drain stderr concurrently: a full pipe would otherwise stall every process
                    // but the one currently being waited for
                    let mut pipe = c.stderr.take().expect("stderr");
                    let reader = std::thread::spawn(move || {
                        let mut b = Vec::new();
                        let _ = std::io::Read::read_to_end(&mut pipe, &mut b);
                        b
                    });
                    children.push((c, corpus, reader))
                }
                Err(e) => {
                    eprintln!("INCONCLUSIVE: cannot start fuzz target: {e}");
                    std::process::exit(2);
                }
            }
        }
        let mut stats = Stats::default();
        let mut ok = true;
        let mut total_runs = 0u64;
        let mut corpus_total = 0u64;
        let mut cov = 0u64;
        let mut spurious_alarms = 0u64;
        for (mut child, corpus, reader) in children {
            let status = match child.wait() {
                Ok(o) => o,
                Err(e) => {
                    eprintln!("INCONCLUSIVE: fuzz process failed: {e}");
                    std::process::exit(2);
                }
            };
            let err = String::from_utf8_lossy(&reader.join().unwrap_or_default()).to_string();
            for l in err.lines() {
                if let Some(r) = l.strip_prefix("stat::number_of_executed_units:") {
                    total_runs += r.trim().parse::<u64>().unwrap_or(0);
                }
                if l.contains(" cov: ") {
                    if let Some(c) = l.split(" cov: ").nth(1).and_then(|x| x.split_whitespace().next()).and_then(|x| x.parse::<u64>().ok()) {
                        cov = cov.max(c);
                    }
                }
            }
            let files: Vec<_> = std::fs::read_dir(&corpus).map(|d| d.flatten().collect()).unwrap_or_default();
            corpus_total += files.len() as u64;
            for (k, f) in files.iter().enumerate() {
                if let Ok(bytes) = std::fs::read(f.path()) {
                    stats.nontrivial.insert(crate::led::hash_str(&String::from_utf8_lossy(&bytes)));
                    if k < 1 && stats.nt_samples.len() < 2 {
                        stats.nt_samples.push(serde_json::json!({"corpus_entry_bytes": bytes.len(), "head": String::from_utf8_lossy(&bytes[..bytes.len().min(120)]).to_string()}));
                    }
                }
            }
            let _ = std::fs::remove_dir_all(&corpus);
            if !status.success() {
                if let Some(path) = err.lines().find_map(|l| l.split("Test unit written to ").nth(1)) {
                    let path = path.trim().to_string();
                    if err.contains("ORACLE FAILURE") {
                        let why = err.lines().find(|l| l.contains("ORACLE FAILURE")).unwrap_or("").to_string();
                        self.violated.store(true, Ordering::SeqCst);
                        println!("--- violation detail (fuzz target {target}) ---\n{}", why.chars().take(3000).collect::<String>());
                        println!("VIOLATION property={} replay={}", self.property, path);
                        ok = false;
                    } else if err.contains("ALARM") || err.contains("timeout") {
                        // libFuzzer's per-input alarm is wall-clock: a paused or starved machine
                        // trips it on inputs that take milliseconds. Re-run the saved input here
                        // under our own watchdog before believing it.
                        let data = std::fs::read(&path).unwrap_or_default();
                        let tname = target.to_string();
                        let (tx, rx) = std::sync::mpsc::channel();
                        std::thread::spawn(move || {
                            let _ = tx.send(crate::fuzzing::run_target(&tname, &data));
                        });
                        match rx.recv_timeout(std::time::Duration::from_secs(120)) {
                            Ok(Some(crate::fuzzing::FuzzOutcome::Fail(m))) => {
                                self.violated.store(true, Ordering::SeqCst);
                                println!("--- violation detail (fuzz target {target}) ---\n{}", m.chars().take(3000).collect::<String>());
                                println!("VIOLATION property={} replay={}", self.property, path);
                                ok = false;
                            }
                            Ok(_) => {
                                spurious_alarms += 1;
                                let _ = std::fs::remove_file(&path);
                            }
                            Err(_) => {
                                eprintln!("INCONCLUSIVE: fuzz target {target} hit the per-input watchdog and the input still runs after 120 s here ({path})");
                                std::process::exit(2);
                            }
                        }
                    } else if err.contains("out-of-memory") || err.contains("malloc limit") {
                        eprintln!("INCONCLUSIVE: fuzz target {target} ran out of memory ({path})");
                        std::process::exit(2);
                    } else {
                        // a crash outside the oracle: a panic of the code under test escaping the guards
                        self.violated.store(true, Ordering::SeqCst);
                        println!("--- violation detail (fuzz target {target}) ---\ncrash outside the oracle:\n{}", err.lines().rev().take(15).collect::<Vec<_>>().join("\n"));
                        println!("VIOLATION property={} replay={}", self.property, path);
                        ok = false;
                    }
                } else {
                    eprintln!("INCONCLUSIVE: fuzz target {target} exited with {:?} without an artifact:\n{}", status.code(), err.lines().rev().take(8).collect::<Vec<_>>().join("\n"));
                    std::process::exit(2);
                }
            }
        }
        stats.evaluations = total_runs;
        stats.classes.insert("coverage_edges".into(), cov);
        stats.classes.insert("corpus_entries".into(), corpus_total);
        stats.classes.insert("processes".into(), procs as u64);
        if spurious_alarms > 0 {
            stats.classes.insert("wall_clock_alarms_not_reproduced".into(), spurious_alarms);
        }
        self.sub.lock().unwrap().push(SubReport {
            name: name.to_string(),
            stats,
            rule: rule.to_string(),
            exhaustive: false,
            wall_s: t0.elapsed().as_secs_f64(),
        });
        ok
    }

    /// With VERIF_DUMP_KNOWN=1 the first case attributed to each open finding is written to
    /// regressions/<property>-<finding>.json (maintenance aid; the files are then committed).
    fn maybe_dump_known<C: Serialize>(&self, check: &str, finding: &str, case: &C) {
        if std::env::var("VERIF_DUMP_KNOWN").is_err() {
            return;
        }
        let dir = format!("{}/regressions", verif_dir());
        let _ = std::fs::create_dir_all(&dir);
        let path = format!("{dir}/{}-{finding}.json", self.property);
        if std::path::Path::new(&path).exists() {
            return;
        }
        let body = json!({"property": self.property, "check": check, "expect": finding, "case": serde_json::to_value(case).unwrap_or(Value::Null)});
        let _ = std::fs::write(&path, serde_json::to_string_pretty(&body).unwrap_or_default());
    }

    /// Replay the committed regression cases of this property (plain oracle, no proptest):
    /// cases of open findings must still be attributed to that finding (that prints the
    /// KNOWN-FINDING line deterministically), cases of fixed findings must hold.
    pub fn run_regressions(&self, replay: fn(&str, &Value) -> Option<Verdict>) -> bool {
        let dir = format!("{}/regressions", verif_dir());
        let Ok(rd) = std::fs::read_dir(&dir) else { return true };
        let mut files: Vec<_> = rd.flatten().map(|e| e.path()).filter(|p| p.extension().map(|x| x == "json").unwrap_or(false)).collect();
        files.sort();
        let t0 = Instant::now();
        let mut stats = Stats::default();
        let mut ok = true;
        for f in files {
            let Ok(txt) = std::fs::read_to_string(&f) else { continue };
            let Ok(v) = serde_json::from_str::<Value>(&txt) else { continue };
            if v.get("property").and_then(|x| x.as_str()) != Some(self.property.as_str()) {
                continue;
            }
            let check = v.get("check").and_then(|x| x.as_str()).unwrap_or("");
            let expect = v.get("expect").and_then(|x| x.as_str()).unwrap_or("pass");
            let case = v.get("case").cloned().unwrap_or(Value::Null);
            let Some(verdict) = replay(check, &case) else {
                eprintln!("INCONCLUSIVE: regression file {} names unknown check {check}", f.display());
                std::process::exit(2);
            };
            stats.evaluations += 1;
            stats.nontrivial.insert(crate::led::hash_str(&txt));
            match self.resolve(verdict) {
                Verdict::Pass => {
                    if expect != "pass" {
                        println!("NOTE: listed finding {expect} no longer shows on {} (fixed?)", f.display());
                    }
                }
                Verdict::Known { finding, what } => {
                    let e = stats.known_seen.entry(finding.to_string()).or_insert((0, what));
                    e.0 += 1;
                }
                Verdict::Fail(msg) => {
                    println!("--- violation detail (regression {}) ---\n{msg}", f.display());
                    self.violated.store(true, Ordering::SeqCst);
                    println!("VIOLATION property={} replay={}", self.property, f.display());
                    ok = false;
                }
            }
        }
        if stats.evaluations > 0 {
            self.sub.lock().unwrap().push(SubReport {
                name: "committed_regressions".to_string(),
                stats,
                rule: "committed shrunk cases of fixed findings (must hold) and of open findings (must still be attributed to exactly that finding), replayed by the plain oracle".to_string(),
                exhaustive: true,
                wall_s: t0.elapsed().as_secs_f64(),
            });
        }
        ok
    }

    /// Run a deterministic enumeration (exhaustive sub-check).
    pub fn run_enum<C, I, F>(&self, name: &str, rule: &str, items: I, check: F) -> bool
    where
        C: std::fmt::Debug + Clone + Serialize,
        I: IntoIterator<Item = C>,
        F: Fn(&C, &mut Obs) -> Verdict,
    {
        let t0 = Instant::now();
        let mut stats = Stats::default();
        let mut ok = true;
        for c in items {
            let mut obs = Obs::default();
            match self.resolve(check(&c, &mut obs)) {
                Verdict::Pass => stats.absorb_obs(obs),
                Verdict::Known { finding, what } => {
                    stats.absorb_obs(obs);
                    let e = stats.known_seen.entry(finding.to_string()).or_insert((0, what));
                    e.0 += 1;
                }
                Verdict::Fail(msg) => {
                    self.report_violation(name, &serde_json::to_value(&c).unwrap_or(Value::Null), &msg);
                    ok = false;
                    break;
                }
            }
        }
        self.sub.lock().unwrap().push(SubReport {
            name: name.to_string(),
            stats,
            rule: rule.to_string(),
            exhaustive: true,
            wall_s: t0.elapsed().as_secs_f64(),
        });
        ok
    }

    pub fn report_violation(&self, check: &str, case: &Value, reason: &str) {
        self.violated.store(true, Ordering::SeqCst);
        let dir = out_dir("replays");
        let _ = std::fs::create_dir_all(&dir);
        let path = format!("{dir}/{}-{}-{}.json", self.property, check, self.seed_env());
        let body = json!({
            "property": self.property,
            "check": check,
            "seed": self.seed_env(),
            "reason": reason,
            "case": case,
        });
        let _ = std::fs::write(&path, serde_json::to_string_pretty(&body).unwrap_or_default());
        let mut shown = serde_json::to_string(case).unwrap_or_default();
        if shown.len() > 1500 {
            shown.truncate(1500);
            shown.push_str("...");
        }
        println!("--- violation detail ({check}) ---\n{reason}\n--- shrunk case ---\n{shown}");
        print_ledgers("case", case);
        println!("VIOLATION property={} replay={}", self.property, path);
    }

    /// Write evidence and produce the exit code.
    pub fn finish(&self, level_assumptions: &[&str]) -> i32 {
        let subs = self.sub.lock().unwrap();
        let mut evaluations = 0u64;
        let mut distinct_nt = 0u64;
        let mut classes: BTreeMap<String, u64> = BTreeMap::new();
        let mut samples: Vec<Value> = vec![];
        let mut known: BTreeMap<String, (u64, String)> = BTreeMap::new();
        let mut rules = vec![];
        let mut per_check = vec![];
        let mut exact = 0;
        let mut tol = 0;
        let mut excluded = 0;
        let mut all_exh = !subs.is_empty();
        for s in subs.iter() {
            evaluations += s.stats.evaluations;
            distinct_nt += s.stats.nontrivial.len() as u64;
            for (k, v) in &s.stats.classes {
                *classes.entry(format!("{}:{}", s.name, k)).or_insert(0) += v;
            }
            for x in s.stats.nt_samples.iter().take(2) {
                samples.push(json!({"check": s.name, "nontrivial": true, "case": x}));
            }
            if s.stats.nt_samples.is_empty() {
                for x in s.stats.samples.iter().take(1) {
                    samples.push(json!({"check": s.name, "nontrivial": false, "case": x}));
                }
            }
            for (k, (n, w)) in &s.stats.known_seen {
                let e = known.entry(k.clone()).or_insert((0, w.clone()));
                e.0 += n;
            }
            rules.push(format!("[{}] {}", s.name, s.rule));
            per_check.push(json!({
                "check": s.name,
                "evaluations": s.stats.evaluations,
                "distinct_cases": s.stats.distinct.len(),
                "distinct_nontrivial": s.stats.nontrivial.len(),
                "exhaustive": s.exhaustive,
                "wall_s": (s.wall_s * 1000.0).round() / 1000.0,
            }));
            exact += s.stats.exact_cmp;
            tol += s.stats.tol_cmp;
            excluded += s.stats.excluded;
            all_exh &= s.exhaustive;
        }
        for (k, (n, w)) in &known {
            println!("KNOWN-FINDING: property={} {} {} (seen in {} generated cases)", self.property, k, if w.is_empty() { self.known.what(k) } else { w.clone() }, n);
        }
        let violated = self.violated.load(Ordering::SeqCst);
        let ev = json!({
            "property_id": self.property,
            "tier": self.tier.name(),
            "seed": self.seed_env(),
            "level": "exploration",
            "coverage": {
                "evaluations": evaluations,
                "distinct_nontrivial": distinct_nt,
                "rule": rules.join(" | "),
                "samples": samples,
                "exhaustive": all_exh,
                "per_check": per_check,
                "classes": classes,
                "known_findings_seen": known.iter().map(|(k,(n,w))| json!({"finding": k, "cases": n, "what": w})).collect::<Vec<_>>(),
                "comparisons_bit_exact": exact,
                "comparisons_within_tolerance_only": tol,
                "excluded_by_construction": excluded,
                "threads": self.threads,
            },
            "assumptions": level_assumptions,
            "wall_s": (self.start.elapsed().as_secs_f64() * 1000.0).round() / 1000.0,
            "violations": if violated { 1 } else { 0 },
        });
        let dir = out_dir("evidence");
        let _ = std::fs::create_dir_all(&dir);
        let path = format!("{dir}/{}.json", self.property);
        if let Err(e) = std::fs::write(&path, serde_json::to_string_pretty(&ev).unwrap_or_default()) {
            eprintln!("INCONCLUSIVE: cannot write evidence {path}: {e}");
            return 2;
        }
        println!(
            "{} {}: evaluations={} distinct_nontrivial={} known_findings={} wall={:.1}s -> {}",
            self.property,
            self.tier.name(),
            evaluations,
            distinct_nt,
            known.len(),
            self.start.elapsed().as_secs_f64(),
            if violated { "VIOLATION" } else { "ok" }
        );
        if violated { 1 } else { 0 }
    }
}

/// Replay helper: deserialize the case and run the plain oracle once.
pub fn replay_case<C: DeserializeOwned, F: Fn(&C, &mut Obs) -> Verdict>(case: &Value, f: F) -> Result<Verdict, String> {
    let c: C = serde_json::from_value(case.clone()).map_err(|e| format!("cannot decode case: {e}"))?;
    let mut obs = Obs::default();
    Ok(f(&c, &mut obs))
}

/// Map an index monotonically into 0..len (shrinks towards 0).
pub fn pick_idx(raw: u16, len: usize) -> usize {
    if len == 0 {
        return 0;
    }
    ((raw as usize) * len) >> 16
}

pub fn boxed<S: Strategy + 'static>(s: S) -> BoxedStrategy<S::Value> {
    s.boxed()
}

/// Print every array inside `v` that decodes as a non-empty ledger, as DSL.
fn print_ledgers(path: &str, v: &Value) {
    match v {
        Value::Array(a) => {
            if !a.is_empty() {
                if let Ok(txs) = serde_json::from_value::<Vec<crate::led::Tx>>(v.clone()) {
                    println!("--- {path} as DSL ---\n{}", crate::led::to_dsl(&txs));
                    return;
                }
            }
            for (i, x) in a.iter().enumerate() {
                print_ledgers(&format!("{path}[{i}]"), x);
            }
        }
        Value::Object(o) => {
            for (k, x) in o {
                print_ledgers(&format!("{path}.{k}"), x);
            }
        }
        _ => {}
    }
}
