#!/usr/bin/env python3
"""Regenerates /verif/MANIFEST.json from the table below (kept in one place so the
manifest is always valid and in step with what ./check implements)."""
import json, subprocess

PBT = "property-based testing (proptest strategies from a constructive, model-guided generator; fixed seeds; shrinking to a replay file)"
BUILT = {
 "C01": dict(
  technique=PBT + "; differential oracle = exact-rational reference model of s105(1)/s106A/s104; exhaustive 30-day window sweep",
  text="Generated accepted ledgers (1-3 securities, fills, fees, terminating and non-terminating splits, asset events, shuffled line order) are run through cgt-core and every leg (rule, quantity, acquisition date; cost/proceeds/gain when no CAPRETURN/ACCUMULATION) is compared with an independent exact-arithmetic model; the D+30/D+31 edge is enumerated exhaustively over calendar anchors with a hand-written expectation. Exploration: ~11k ledgers quick, ~0.8M thorough.",
  note="Trusted: the harness model (unit-tested, cross-checked by the hand-written window sweep), rust_decimal/chrono, tolerance 1e-12 rel (qty) / 1e-9 abs (money). Same-day split/event+trade placements are outside the domain.",
  ref="3 C01"),
 "C02": dict(
  technique=PBT + "; invariant oracle over report + input lines (leg sums, per-acquisition-day caps rescaled across splits, closing holdings)",
  text="For every generated accepted ledger the three conservation laws are recomputed from the SELL/BUY/SPLIT lines in exact rationals and compared with the report. Exploration over the same strata as C01 plus an all-features stratum.",
  note="Trusted: day aggregation in harness/src/model.rs; quantity tolerance 1e-12 relative.",
  ref="3 C02"),
 "C03": dict(
  technique=PBT + "; conservation invariant per security in exact rationals (leg costs + closing cost = purchases + accumulations - net capital returns in effect)",
  text="Cost conservation recomputed from input lines for generated ledgers with partial lots, fees, splits and CAPRETURN/ACCUMULATION events; an event counts iff shares were held at the close of the previous day; a foreign-currency stratum converts every amount with the harness's own reading of the bundled rate tables.",
  note="Trusted: day aggregation, the harness's rate-table scanner; money tolerance 1e-9.",
  ref="3 C03"),
 "C04": dict(
  technique=PBT + "; identities recomputed from the input lines over generated exemption configurations (embedded, replaced/added years, missing year must error)",
  text="Every report identity in the statement (gross/net proceeds, leg sums, gain netting per disposal, year totals, disposal_count incl. JSON field, dividend sums, exemption lookup, taxable gain, UnsupportedExemptionYear instead of zero) is recomputed independently for generated multi-year ledgers incl. a zero-result/mixed stratum and a stratum with shuffled lines; each tax year must list exactly one disposal per (security, day) with a sale.",
  note="Exemption override *files* are exercised through Config values here; the CLI path reads files in the process strata of C07/C16. Money tolerance 1e-9.",
  ref="3 C04"),
 "C05": dict(
  technique=PBT + "; mutation-based generation (accepted ledger -> deleted BUY / duplicated SELL / +1 share / +1 ulp / SELL moved earlier / extra SELL next day) with the exact coverage predicate of the reference model as oracle",
  text="Accept/refuse verdict of calculate() compared with exact cumulative coverage per security and date; on refusal the error must be InvalidTransaction naming an uncovered (security, ISO date). About half the generated cases are uncovered. A process-level stratum runs the CLI in all formats and the MCP tools calculate_report and explain_matching on covered and uncovered ledgers.",
  note="'No other obstacle' by construction (GBP, all years configured, no CAPRETURN). Known finding F3 (rounding dust through non-terminating ratios) is attributed only by its exact signature.",
  ref="3 C05"),
 "C06": dict(
  technique=PBT + "; metamorphic relation (permutation of lines, partition into files joined as the CLI does, fill splitting with equal totals) on the report minus echoed transactions",
  text="Each accepted ledger is compared with a permuted + fill-split variant and with the same lines distributed over 1-4 files and re-parsed; reports must be equivalent and acceptance identical.",
  note="File split is checked in-process through the same join+parse the CLI uses. Tolerance as C01 (weighted-average price is a rounded division).",
  ref="3 C06"),
 "C07": dict(
  technique="exhaustive enumeration of every calendar date 1899-2102 against an independent 6-April rule + " + PBT + " over ledgers x every year filter (differential: single-year report vs slice of all-years report)",
  text="TaxPeriod::from_date is checked on all 74,510 dates; generated ledgers biased to 5/6 April over 1-10 tax years are reported for every filter in [first-2,last+2] with the all-years and the embedded configuration and compared field by field with the all-years report; holdings must not depend on the filter.",
  note="The third year derivation (MCP explain_matching) is exercised by C20's process stratum.",
  ref="3 C07"),
 "C08": dict(
  technique=PBT + "; metamorphic twin (foreign ledger vs ledger pre-converted with an independently scanned rate table), generated rate folders, malformed files; CLI --fx-folder stratum",
  text="Ledgers with per-field currencies over 2014-2027 and generated rate folders (overrides, new months, two files per month, both name styles) must equal their GBP twin or fail with MissingFxRate naming a genuinely missing pair; loaded cache compared with the expected table on overridden keys and neighbours; malformed files (mislabelled periods in several spellings, non-positive rates also on rows with unknown currency codes, unparsable names/content) must be rejected; ledgers are stretched from days to years; the real CLI with --fx-folder is compared with the twin. A zero FEES/TAX amount needs no rate.",
  note="Trusted: harness scanner over crates/cgt-money/resources/rates (plain text scan), Decimal division identical on both sides.",
  ref="3 C08"),
 "C09": dict(
  technique=PBT + "; metamorphic projection (report of all securities restricted to S vs report of S's lines alone; year totals additive) and ticker-case variants through DSL and JSON",
  text="2-5 securities on a shared date axis with splits/events, shuffled; per-security projections, additivity of year totals and mixed-case tickers in both input formats.",
  note="Tolerance as C01.",
  ref="3 C09"),
 "C10": dict(
  technique=PBT + "; metamorphic twin (ledger rewritten in post-split units for one chosen split; inserted SPLIT r + UNSPLIT r pair)",
  text="Gains, proceeds, costs and closing cost must be equal and quantities scale by the ratio for dates before the split; acceptance must be identical; an inserted split/unsplit pair must change nothing.",
  note="Twins need exactly representable rescaled numbers, so ratios are 2,4,5,10,1.25,2.5 here; non-terminating ratios are judged against the exact model in C01/C02/C05.",
  ref="3 C10"),
 "C11": dict(
  technique=PBT + "; metamorphic relations on an inserted event (exact cost delta, later-acquired legs unchanged, cancelling pair, dividend neutrality), sign invariant, refusal boundary against the exact pool cost",
  text="Base ledger x one inserted CAPRETURN / ACCUMULATION / cancelling pair / DIVIDEND lines / boundary-sized return (also written as two same-day lines, also sharing its date with another event); legs of disposals made before the holding was emptied keep their cost. Known findings F11 and F12 are attributed only when an emulation of the tool's own pre-pass reproduces exactly that behaviour.",
  note="The tool's deliberate attachment of adjustments to earlier acquisitions (C12) is respected; refusal boundary judged only for pool-only histories.",
  ref="3 C11"),
 "C12": dict(
  technique=PBT + "; history extension: prefix x continuation built by the same constructive builder from the prefix's closing holdings, starting 31+ days later",
  text="Every disposal of report(P) must appear bit-identical in report(P+S); tax years that ended before S begins must be identical; P+S must be accepted.",
  note="Continuations contain no CAPRETURN/ACCUMULATION (excluded by the statement).",
  ref="3 C12"),
 "C13": dict(
  technique=PBT + " over lexical renderings, single-token corruptions and random byte edits; round-trip/line-count oracle for whatever parses",
  text="Valid lists rendered with every combination of the listed lexical variations must parse to the same list; one corrupted token must produce a ParseError whose position is the corrupted line; byte-edited texts must either be rejected or parse completely (transactions = non-blank non-comment lines) and re-serialise.",
  note="Corrupted files use LF, CRLF and CR-only endings.",
  ref="3 C13"),
 "C14": dict(
  technique=PBT + "; round-trip oracles (DSL write->parse, JSON write->read, idempotent writing) over the full decimal/date/currency domain + report equality across renderings",
  text="Arbitrary transaction lists (96-bit mantissas, scales 0-28, every ISO-4217 code, keyword-like tickers, dates 0001-9999) and generated ledgers, also with foreign currencies and zero optional amounts labelled in a currency without rates (ledger, DSL rendering and JSON rendering must give the same outcome); CLI/MCP stratum.",
  note="Numeric equality of decimals; lower-case tickers are not expressible in the DSL.",
  ref="3 C14"),
 "C15": dict(
  technique=PBT + " / generated fuzzing of every entry point with crash, cleanliness and validator oracles; CLI fault sequences against the real binary",
  text="Arbitrary text, hostile ledgers, validator inputs with arbitrary signs, converter texts (in-process with panic capture) and generated CLI fault sequences (missing files, unwritable/pre-existing outputs, default-PDF protection, bad fx folders, standard output / standard error connected to /dev/full) checking exit codes, stdout emptiness and untouched output paths.",
  note="Hangs are only detected by watchdog (exit 2). Known finding F7 (rust_decimal overflow panics) is attributed by exact message and location.",
  ref="3 C15"),
 "C18": dict(
  technique=PBT + " over generated Schwab exports; row-conservation oracle computed from the rows, permutation and chunking metamorphic relations, DSL validity of the output",
  text="Generated BrokerageTransactions arrays with every action type, amount spelling, date form, hostile descriptions, cancel rows, awards; output must parse, BUY/SELL multiset and dividend/withholding totals must equal the rows, skipped/warnings must account for the rest, order and chunking must not matter. Rows include Sell twins, companion dividend/withholding rows for one date and symbol, blank amounts and fees spelled negative.",
  note="Domain: alphanumeric symbols, non-negative numbers; dividends/withholding rows carry symbol and amount.",
  ref="3 C18"),
 "C19": dict(
  technique=PBT + " over generated awards files and deposit dates; reference lookup written from the statement",
  text="Awards entries at -12..+12 days around deposits with every field combination; the emitted BUY must carry the date and a price of the entry the 7-day look-back rule selects, or conversion must fail naming symbol and date; other symbols in the awards file sort before and after the deposit's and share its prefix.",
  note="Ambiguous field combinations (blank vest value next to a fallback price) are not generated.",
  ref="3 C19"),
}


BUILT.update({
 "C16": dict(
  technique=PBT + "; repetition oracle (20 in-process repetitions with fresh hash seeds, 4-40 fresh processes per input) + canonical-order invariants; PDF text runs via the verif-hooks feature",
  text="Ledgers with 6-12 securities, many disposals per date and several tax years are calculated and formatted repeatedly; text/JSON bytes, PDF text runs (minus the generation date) and the stdout of report/parse/convert across fresh processes must be identical; years, disposals, holdings and echoed trades must be canonically ordered.",
  note="Schedules (hash seeds) are resampled, not enumerated: with k keys a missing sort survives one comparison with probability about 1/k!.",
  ref="3 C16"),
 "C17": dict(
  technique=PBT + "; differential oracle between each front-end (plain text, JSON, PDF text runs via verif-hooks, MCP calculate_report/explain_matching) and figures recomputed in exact rationals with half-away-from-zero rounding",
  text="Generated reports incl. a half-penny midpoint stratum and a >= 1,000,000 stratum; every figure located through the documented layout (incl. the asset-event sections of text and PDF, price/fee cells with foreign currencies, century-boundary tax-year labels) and compared with the computed value (in full or rounded to pence), structure (years, disposals, legs, holdings, transactions) compared across front-ends.",
  note="PDF read through the verif-hooks feature of cgt-formatter-pdf (text runs of the compiled document). Known finding F8 (binary-float rounding in the PDF) is attributed only when a reproduction of the template's float pipeline yields exactly the shown text.",
  ref="3 C17"),
 "C20": dict(
  technique="stateful/model-based generation of JSON-RPC sessions (vec of request specs + interpreter) against the real `cgt-tool mcp` process, pipelined and sequential, 4-8 concurrent sessions; oracles: one response per id, liveness until EOF, statelessness (same request => same answer across positions, deliveries and sessions), differential vs library/CLI",
  text="Sessions of 5-60 well-formed and malformed requests over the five tools and the resource methods (some sent twice, some with byte-edited or padded arguments incl. multi-byte characters) are run twice (as generated and reversed one at a time); answers are compared per request content and against cgt-core / cgt-tool report/parse and the independent FX table.",
  note="tokio interleavings are provoked, not enumerated. Known findings F7 (overflow request never answered) and F16 (non-object params stops the server) are attributed by exact signature. Requests with methods outside the MCP schema are outside the statement's domain and not generated.",
  ref="3 C20"),
})

NOT_YET = "check not finished yet in this round (process-level / PDF parts in progress); not claimed until it runs clean"

props = [json.loads(l) for l in open('/verif/properties.jsonl')]
checks, na = [], []
for p in props:
    pid = p['id']
    if pid in BUILT:
        b = BUILT[pid]
        checks.append({
            "property_id": pid,
            "quick_cmd": f"./check {pid} quick",
            "thorough_cmd": f"./check {pid} thorough",
            "evidence_file": f"/verif/evidence/{pid}.json",
            "replay_cmd_template": "./check --replay {path}",
            "engine": "cgtverif",
            "level_claimed": {"category": "exploration", "text": b['text'], "design_ref": b['ref']},
            "level_note": b['note'],
            "technique": b['technique'],
        })
    else:
        na.append({"property_id": pid, "reason": NOT_YET})

def sh(c):
    return subprocess.run(c, shell=True, capture_output=True, text=True).stdout.strip()

hooks_commits = [l.split()[0] for l in sh("git -C /repo log --format='%h %s' e6c2c49..HEAD").splitlines() if ' verif-hook' in l or 'verif hook' in l]

m = {
 "version": 1,
 "setup_cmd": "./check --setup",
 "hooks": {
   "guard": "cargo feature verif-hooks (crate cgt-formatter-pdf)",
   "enable": "harness/Cargo.toml depends on cgt-formatter-pdf with features=[\"verif-hooks\"]; nothing else in /repo is built with it",
   "baseline_off_cmd": "cd /repo && cargo test --workspace --no-fail-fast --offline",
   "source_commits": hooks_commits,
   "add_only": True,
 },
 "engines": [
   {"name": "cgtverif", "path": "/verif/harness", "serves_properties": sorted(BUILT.keys()),
    "kind_free_text": "Rust binary linking the repo crates by path: proptest strategies driven from TestRunner with fixed seeds on 16 threads, exact-rational reference model, metamorphic twins, process drivers for the CLI and MCP server; shrinks failures to replay files"},
 ],
 "checks": checks,
 "not_applicable": na,
 "notes": "All checks: exit 0 held / 1 VIOLATION line / 2 inconclusive (build failure, watchdog, harness error). Known findings: /verif/known_findings.json (read-only at run time).",
}
json.dump(m, open('/verif/MANIFEST.json','w'), indent=1)
print("claimed", len(checks), "not_applicable", len(na))
