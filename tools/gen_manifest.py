#!/usr/bin/env python3
"""Regenerates /verif/MANIFEST.json from the table below (kept in one place so the
manifest is always valid and in step with what ./check implements)."""
import json, subprocess

BUILT = {
 "C01": dict(
  technique="property-based differential testing against an exact-rational reference model (proptest, constructive ledger generator, shrinking) + exhaustive 30-day window sweep",
  text="Generated accepted ledgers (1-3 securities, fills, fees, terminating and non-terminating splits, asset events, shuffled line order) are run through cgt-core and every leg (rule, quantity, acquisition date; cost/proceeds/gain when no CAPRETURN/ACCUMULATION) is compared with an independent exact-arithmetic model of s105(1)/s106A/s104; the D+30/D+31 edge is enumerated exhaustively over calendar anchors. Exploration: held on everything generated, thousands (quick) to ~10^6 (thorough) ledgers.",
  note="Trusted: the harness model (unit-tested on hand-computed examples, cross-checked by the hand-written window-sweep expectation), rust_decimal/chrono, tolerance 1e-12 rel (qty) / 1e-9 abs (money). Same-day split/event+trade placements excluded from the domain.",
  ref="3 C01"),
}

NOT_YET = "check not built yet in this round (planned in DESIGN.md); not claimed"

props = [json.loads(l) for l in open('/verif/properties.jsonl')]
checks, na = [], []
for p in props:
    pid = p['id']
    if pid in BUILT:
        b = BUILT[pid]
        checks.append({
            "property_id": pid,
            "quick_cmd": f"./check {pid} quick",
            "thorough_cmd": f"./check {pid} thorough",
            "evidence_file": f"/verif/evidence/{pid}.json",
            "replay_cmd_template": "./check --replay {path}",
            "engine": "cgtverif",
            "level_claimed": {"category": "exploration", "text": b['text'], "design_ref": b['ref']},
            "level_note": b['note'],
            "technique": b['technique'],
        })
    else:
        na.append({"property_id": pid, "reason": NOT_YET})

def sh(c):
    return subprocess.run(c, shell=True, capture_output=True, text=True).stdout.strip()

hooks_commits = [l.split()[0] for l in sh("git -C /repo log --format='%h %s' e6c2c49..HEAD").splitlines() if ' verif-hook' in l or 'verif hook' in l]

m = {
 "version": 1,
 "setup_cmd": "./check --setup",
 "hooks": {
   "guard": "cargo feature verif-hooks (crate cgt-formatter-pdf)",
   "enable": "harness/Cargo.toml depends on cgt-formatter-pdf with features=[\"verif-hooks\"]; nothing else in /repo is built with it",
   "baseline_off_cmd": "cd /repo && cargo test --workspace --no-fail-fast --offline",
   "source_commits": hooks_commits,
   "add_only": True,
 },
 "engines": [
   {"name": "cgtverif", "path": "/verif/harness", "serves_properties": sorted(BUILT.keys()),
    "kind_free_text": "Rust binary linking the repo crates by path: proptest strategies driven from TestRunner with fixed seeds on 16 threads, exact-rational reference model, metamorphic twins, process drivers for the CLI and MCP server; shrinks failures to replay files"},
 ],
 "checks": checks,
 "not_applicable": na,
 "notes": "All checks: exit 0 held / 1 VIOLATION line / 2 inconclusive (build failure, watchdog, harness error). Known findings: /verif/known_findings.json (read-only at run time).",
}
json.dump(m, open('/verif/MANIFEST.json','w'), indent=1)
print("claimed", len(checks), "not_applicable", len(na))
