#!/usr/bin/env bash
# usage: tools/soak.sh <first-seed> <last-seed> [tier]   -- every check, several PRNG seeds, unchanged tree.
# Prints one line per (seed, check) that is not "exit 0 without VIOLATION"; silent otherwise.
cd "$(dirname "$0")/.."
tier=${3:-quick}
for seed in $(seq $1 $2); do
  for id in C01 C02 C03 C04 C05 C06 C07 C08 C09 C10 C11 C12 C13 C14 C15 C16 C17 C18 C19 C20; do
    t0=$(date +%s)
    out=$(VERIF_SEED=$seed ./check $id $tier 2>&1); rc=$?
    [ -n "$SOAK_TIMES" ] && echo "time $id $tier seed=$seed $(( $(date +%s) - t0 ))s exit=$rc"
    if [ $rc -ne 0 ] || echo "$out" | grep -q "^VIOLATION"; then
      echo "SEED $seed $id exit=$rc :: $(echo "$out" | grep -m1 -A2 'violation detail' | tail -2 | tr '\n' ' ' | cut -c1-300) $(echo "$out" | grep INCONCLUSIVE | head -1)"
    fi
  done
  echo "seed $seed done $(date +%H:%M:%S)"
done
