#!/usr/bin/env bash
# Re-runs every archived seeded change against the check of its own property (quick tier).
cd /verif
for d in seeded/*/; do
  name=$(basename $d)
  prop=$(python3 -c "import json;print(json.load(open('$d/meta.json'))['property'])")
  if git -C /repo apply --check /verif/$d/patch.diff 2>/dev/null; then
    mutants/run.sh $d/patch.diff $prop 2>&1 | sed "s|^patch.diff|$name|" | cut -c1-200
  else
    echo "$name $prop SKIP: patch no longer applies to the current /repo (a later fix commit touched the same lines)"
  fi
done
