#!/usr/bin/env bash
# Re-runs every archived seeded change against the checks recorded as detecting it (quick tier,
# scratch worktree via mutants/run.sh; /repo is not touched).
cd /verif
for d in seeded/*/; do
  name=$(basename $d)
  prop=$(python3 -c "import json;m=json.load(open('$d/meta.json'));print(' '.join(m.get('detected_by') or [m['property']]))")
  if git -C /repo apply --check /verif/$d/patch.diff 2>/dev/null; then
    mutants/run.sh $d/patch.diff $prop 2>&1 | sed "s|^patch.diff|$name|" | cut -c1-200
  elif [ -f $d/patch.ported.diff ] && git -C /repo apply --check /verif/$d/patch.ported.diff 2>/dev/null; then
    # the same change re-made on the current code (a later fix commit touched the lines)
    mutants/run.sh $d/patch.ported.diff $prop 2>&1 | sed "s|^patch.ported.diff|$name (ported)|" | cut -c1-200
  else
    echo "$name $prop SKIP: patch no longer applies to the current /repo (a later fix commit touched the same lines)"
  fi
done
