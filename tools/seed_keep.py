#!/usr/bin/env python3
"""usage: seed_keep.py <ID> <name> <verify-line> <result-lines...>
Archives a confirmed seeded change as /verif/seeded/<name>/ (patch.diff, demo/, meta.json)."""
import json, os, shutil, sys
pid, name, verify = sys.argv[1], sys.argv[2], sys.argv[3]
results = sys.argv[4:]
src = f"/tmp/seed/{pid}-out"
dst = f"/verif/seeded/{name}"
os.makedirs(dst, exist_ok=True)
shutil.copy(f"{src}/patch.diff", f"{dst}/patch.diff")
if os.path.isdir(f"{dst}/demo"): shutil.rmtree(f"{dst}/demo")
shutil.copytree(f"{src}/demo", f"{dst}/demo")
meta = json.load(open(f"{src}/meta.json"))
meta["confirmed_by_me"] = verify
meta["checks_run"] = results
meta["detected_by"] = sorted({r.split()[1] for r in results if "exit=1" in r})
meta["missed_by"] = sorted({r.split()[1] for r in results if "exit=0" in r})
json.dump(meta, open(f"{dst}/meta.json", "w"), indent=1)
print(dst, "detected_by", meta["detected_by"], "missed_by", meta["missed_by"])
