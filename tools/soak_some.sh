#!/usr/bin/env bash
# usage: tools/soak_some.sh <seed> <tier> <ID...>   -- like soak.sh for a subset of checks
cd "$(dirname "$0")/.."
seed=$1; tier=$2; shift 2
for id in "$@"; do
  t0=$(date +%s)
  out=$(VERIF_SEED=$seed ./check $id $tier 2>&1); rc=$?
  echo "time $id $tier seed=$seed $(( $(date +%s) - t0 ))s exit=$rc"
  if [ $rc -ne 0 ] || echo "$out" | grep -q "^VIOLATION"; then
    echo "SEED $seed $id exit=$rc :: $(echo "$out" | grep -m1 -A2 'violation detail' | tail -2 | tr '\n' ' ' | cut -c1-300) $(echo "$out" | grep INCONCLUSIVE | head -1)"
  fi
done
echo "done"
