#!/usr/bin/env bash
# usage: tools/seed_verify.sh <ID> [name]  -- independently confirms a seeded change in its scratch worktree:
#   demo fails with the change, existing suite passes with the change, demo passes without it.
set -u
ID="$1"; W=/tmp/seed/$ID; O=/tmp/seed/$ID-out
export CARGO_TARGET_DIR=$W/target CARGO_NET_OFFLINE=true
cd $W || exit 3
git checkout -q -- . ; git clean -fdq crates tests 2>/dev/null
run_demo() { bash -c "$(cat $O/demo/RUN.txt)" >/tmp/seed/$ID-demo.log 2>&1; echo $?; }
git apply $O/patch.diff || { echo "PATCH DOES NOT APPLY"; exit 3; }
d1=$(run_demo)
# remove demo files before running the suite
git clean -fdq crates tests 2>/dev/null
cargo test --workspace --no-fail-fast --offline >/tmp/seed/$ID-suite.log 2>&1; s=$?
passed=$(grep -E "^test result" /tmp/seed/$ID-suite.log | awk '{p+=$4; f+=$6} END {print p"/"f}')
git checkout -q -- .
d2=$(run_demo)
git clean -fdq crates tests 2>/dev/null; git checkout -q -- .
echo "$ID: demo_with_change_exit=$d1 (want !=0)  suite_with_change_exit=$s passed/failed=$passed (want 0)  demo_without_change_exit=$d2 (want 0)"
