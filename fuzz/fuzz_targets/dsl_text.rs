#![no_main]
use libfuzzer_sys::fuzz_target;

fuzz_target!(|data: &[u8]| {
    cgtverif::fuzzing::assert_target("dsl_text", data);
});
